"""Per-run context: the model call-back seam (N4), draw classification for the
cooperative scheduler, call-back budget, result packaging."""
import hashlib
import json

from .core import Scheduler, Inconclusive, Violation, HarnessError, InjectedAbort, load_script
from . import runner

_known_cache = None


def finding_open(prop, key):
    global _known_cache
    if _known_cache is None:
        _known_cache = runner.load_known()
    return any(e.get('property') == prop and e.get('key') == key for e in _known_cache.get('open', []))


class RunCtx:
    """Everything one simulated run shares."""

    CB_CAP = 3_000_000

    def __init__(self, prop, view=None):
        self.prop = prop
        self.view = view
        self.sched = None
        self.n_cb = 0
        self.last = None            # last model call: ('init',) or ('succ', s, a)
        self.cb_hooks = []          # callables(name, args) -> None, fault injection at N4
        self.probes = {}
        self.steps = 0
        self.known = []
        self.clauses = 0
        self.W = None
        self._rr = 0

    def cb(self, name, *ids):
        self.n_cb += 1
        if self.n_cb > self.CB_CAP:
            raise Inconclusive("call-back cap reached")
        if name == 'initial_state_dist':
            self.last = ('init',)
        elif name == 'next_state_dist' and len(ids) >= 2:
            self.last = ('succ', ids[0], ids[1])
        for h in self.cb_hooks:
            h(name, ids)

    def abort_after(self, k):
        """Fault F6: the k-th model call-back from now raises InjectedAbort (once)."""
        box = dict(n=0)

        def hook(name, ids):
            box['n'] += 1
            if box['n'] == k:
                self.cb_hooks.remove(hook)
                if self.sched is not None:
                    self.sched.fire('F6_abort_and_rerun')
                raise InjectedAbort()
        self.cb_hooks.append(hook)
        return hook

    def nest_after(self, k, fn):
        """Fault F10: the k-th model call-back from now runs fn() once - another run of the library, nested inside the
        call-back of this one (what a reward function or heuristic that consults a planner, or an option that plans
        lazily, does).  The nested run's own model call-backs are not hooked."""
        box = dict(n=0, done=False)

        def hook(name, ids):
            box['n'] += 1
            if box['n'] == k and not box['done']:
                box['done'] = True
                saved = (self.cb_hooks, self.last, self.W, self.view)
                self.cb_hooks = []
                self.last = None          # (the nested model is not hooked: nothing it draws is an initial-state draw of the outer run)
                if self.sched is not None:
                    self.sched.fire('F10_nested_run')
                try:
                    fn()
                except (Violation, Inconclusive, HarnessError):
                    raise
                except Exception as e:
                    raise Violation('exception', f"the run nested inside a model call-back raised {type(e).__name__}: {e}",
                                    dict(key=f"exception/nested-run/{type(e).__name__}"))
                finally:
                    self.cb_hooks, self.last, self.W, self.view = saved
        hook.box = box
        self.cb_hooks.append(hook)
        return hook

    def disarm(self, hook):
        if hook in self.cb_hooks:
            self.cb_hooks.remove(hook)

    def probe(self, name, k=1):
        self.probes[name] = self.probes.get(name, 0) + k

    def declare_probes(self, *names):
        for n in names:
            self.probes.setdefault(n, 0)

    def check(self, cond, clause, message, key=None, **data):
        self.clauses += 1
        if not cond:
            raise Violation(clause, message() if callable(message) else message, dict(key=key or clause, **data))

    def known_or_violate(self, clause, key, message):
        """A defect recorded as an open known finding is counted, anything else raises."""
        if finding_open(self.prop, key):
            if key not in self.known:
                self.known.append(key)
            return
        raise Violation(clause, message, dict(key=key))

    # cooperative advisor: minimise the adversarial distance-to-absorption
    def advisor(self, kind, population, weights, legal):
        if population is None or self.view is None or self.W is None:
            return None
        sid = self.view.sid
        try:
            ids = [sid.get(population[i]) for i in legal]
        except TypeError:
            return None
        if any(i is None for i in ids):
            return None
        if self.last == ('init',) and kind in ('choices', 'choice'):
            # fair initial states: round robin over the legal ones
            self._rr += 1
            return legal[self._rr % len(legal)]
        best = min(range(len(legal)), key=lambda j: (self.W[ids[j]], j))
        return legal[best]

    def result(self, nontrivial=True, extra=None):
        s = self.sched
        out = dict(status='ok', digest=s.digest() if s else None, script=s.recorded_script() if s else None,
                   nontrivial=bool(nontrivial and s and s.n > 0 and self.clauses > 0), known=list(self.known),
                   stats=dict(decisions=s.n if s else 0, steps=self.steps, fired=dict(s.fired) if s else {},
                              probes=dict(self.probes), callbacks=self.n_cb, clauses=self.clauses,
                              diverged=bool(s and s.diverged)))
        if extra:
            out.update(extra)
        return out

    def attach_partial(self, exc):
        """Give Violation/Inconclusive the script recorded so far."""
        s = self.sched
        exc.partial = dict(digest=s.digest() if s else None, script=s.recorded_script() if s else None,
                           known=list(self.known), nontrivial=True,
                           stats=dict(decisions=s.n if s else 0, steps=self.steps, fired=dict(s.fired) if s else {},
                                      probes=dict(self.probes), callbacks=self.n_cb, clauses=self.clauses))
        return exc


def make_scheduler(case, script, ctx, **kw):
    sc = case['sched']
    s = Scheduler(sc['seed'], mode=sc['mode'], budget=sc.get('budget'), beta=sc.get('beta', 0.5),
                  cap=sc.get('cap', 50000), script=load_script(script) if script is not None else None,
                  advisor=ctx.advisor if sc.get('coop', True) else None,
                  thresholds=tuple(sc.get('thresholds', (0.5,))), float_styles=sc.get('float_styles'),
                  after=sc.get('after', 'G'), **kw)
    ctx.sched = s
    return s


def gen_sched(rng, modes, budget_choices=(5, 20, 60, 200, 1000), cap=50000, **kw):
    mode = rng.choice(modes)
    d = dict(seed=f"sched:{rng.getrandbits(64)}", mode=mode, budget=rng.choice(budget_choices),
             beta=rng.choice((0.3, 0.5, 0.8)), cap=cap)
    d.update(kw)
    return d


def canon(x):
    """Canonical JSON-able form of msdm keys / floats for digests."""
    if isinstance(x, float):
        return repr(x)
    if isinstance(x, (int, str, bool)) or x is None:
        return x
    if isinstance(x, (list, tuple)):
        return [canon(v) for v in x]
    if hasattr(x, 'items'):
        return {'__map__': sorted(([canon(k), canon(v)] for k, v in x.items()), key=lambda kv: json.dumps(kv[0], sort_keys=True))}
    if hasattr(x, 'tolist'):
        return canon(x.tolist())
    if hasattr(x, 'item'):
        return canon(x.item())
    return repr(x)


def digest_of(x):
    return hashlib.sha256(json.dumps(canon(x), sort_keys=True).encode()).hexdigest()[:16]


# The order of the constructor parameters as documented at the pinned commit: calling a constructor by position is as
# legitimate as calling it by keyword, and must mean the same
PINNED_ORDER = {
    'LAOStar': ('heuristic', 'max_lao_star_iterations', 'dynamic_programming_iterations', 'randomize_action_order',
                'randomize_nextstate_order', 'event_listener_class', 'seed'),
    'LRTDP': ('heuristic', 'bellman_error_margin', 'iterations', 'randomize_action_order', 'max_trial_length',
              'event_listener_class', 'seed'),
    'TD': ('episodes', 'step_size', 'rand_choose', 'softmax_temp', 'initial_q', 'seed', 'event_listener_class'),
    'RMAX': ('episodes', 'rmax', 'num_transition_samples', 'bellman_convergence_diff', 'seed', 'event_listener_class'),
}
PINNED_DEFAULTS = {
    'LAOStar': dict(max_lao_star_iterations=int(1e5), dynamic_programming_iterations=100, randomize_action_order=True,
                    randomize_nextstate_order=True, event_listener_class=None, seed=None),
    'LRTDP': dict(bellman_error_margin=1e-2, iterations=int(2 ** 30), randomize_action_order=False, max_trial_length=None,
                  event_listener_class=None, seed=None),
    'TD': dict(episodes=100, step_size=.1, rand_choose=.05, softmax_temp=0.0, initial_q=0.0, seed=None),
    'RMAX': dict(episodes=100, rmax=1.0, num_transition_samples=3, bellman_convergence_diff=1e-5, seed=None),
}


def construct(cls, kind, kwargs, positional):
    """cls(**kwargs), or the same call with every argument given by position in the documented order."""
    if not positional:
        return cls(**kwargs)
    full = dict(PINNED_DEFAULTS[kind])
    full.update(kwargs)
    order = [k for k in PINNED_ORDER[kind] if k in full]
    # positional arguments must be a prefix of the documented order
    n = 0
    while n < len(PINNED_ORDER[kind]) and PINNED_ORDER[kind][n] in full:
        n += 1
    lead = PINNED_ORDER[kind][:n]
    rest = {k: v for k, v in full.items() if k not in lead}
    return cls(*[full[k] for k in lead], **rest)

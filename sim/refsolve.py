"""Independent reference solvers on specs (numpy only; no msdm code)."""
import heapq
import numpy as np


def mdp_arrays(view):
    N = view.N
    nA = view.spec['nA']
    P = np.zeros((N, nA, N))
    R = np.zeros((N, nA))
    avail = np.zeros((N, nA), dtype=bool)
    for (s, a), d in view.T.items():
        if s in view.absorbing:
            continue
        avail[s, a] = True
        for t, p in d.items():
            R[s, a] += p * view.R[s, a, t]
            if t not in view.absorbing:
                P[s, a, t] = p
    return P, R, avail


def optimal_values(view, tol=1e-13, max_iter=200000):
    """V*(s) with absorbing states worth 0 (episode ends on entry).  Returns
    (V, Q) ; Q is -inf for unavailable actions.

    Howard policy iteration with exact linear solves (a handful of iterations
    whatever the discount), cross-checked by a Bellman residual test; falls back
    to plain value iteration if a solve is singular (improper policy at gamma=1)."""
    P, R, avail = mdp_arrays(view)
    g = view.gamma
    N = view.N
    nonabs = [s for s in range(N) if s not in view.absorbing]
    if not nonabs:
        Q = np.full((N, R.shape[1]), -np.inf)
        return np.zeros(N), Q
    try:
        pol = {s: int(np.argmax(np.where(avail[s], R[s], -np.inf))) for s in nonabs}
        V = None
        for it in range(200):
            Pp = np.zeros((N, N))
            rp = np.zeros(N)
            for s in nonabs:
                Pp[s] = P[s, pol[s]]
                rp[s] = R[s, pol[s]]
            V = np.linalg.solve(np.eye(N) - g * Pp, rp)
            Q = R + g * P @ V
            Q[~avail] = -np.inf
            changed = False
            for s in nonabs:
                b = int(np.argmax(Q[s]))
                if Q[s, b] > Q[s, pol[s]] + 1e-12 * (1 + abs(Q[s, b])):
                    pol[s] = b
                    changed = True
            if not changed:
                break
        else:
            raise np.linalg.LinAlgError("policy iteration did not settle")
        Vb = np.zeros(N)
        Vb[nonabs] = Q[nonabs].max(axis=1)
        if not np.isfinite(V).all() or np.abs(Vb - V).max() > 1e-9 * (1 + np.abs(V).max()):
            raise np.linalg.LinAlgError("Bellman residual too large")
        V = V.copy()
        for s in view.absorbing:
            V[s] = 0.0
        return V, Q
    except np.linalg.LinAlgError:
        pass
    V = np.zeros(N)
    Q = None
    for it in range(max_iter):
        Q = R + g * P @ V
        Q[~avail] = -np.inf
        nV = np.zeros(N)
        nV[nonabs] = Q[nonabs].max(axis=1)
        d = np.abs(nV - V).max() if N else 0.0
        V = nV
        if d < tol:
            break
    return V, Q


def evaluate_det(view, pol):
    return evaluate(view, {s: {a: 1.0} for s, a in pol.items()})[0]


def evaluate(view, pol):
    """pol: s -> {a: prob} for non-absorbing states.  Returns (V, N) with N the
    expected number of steps to absorption (np.inf where not proper)."""
    Pa, Ra, avail = mdp_arrays(view)
    N = view.N
    P = np.zeros((N, N))
    r = np.zeros(N)
    for s in range(N):
        if s in view.absorbing:
            continue
        for a, pa in pol[s].items():
            if pa == 0:
                continue
            P[s] += pa * Pa[s, a]
            r[s] += pa * Ra[s, a]
    V = np.linalg.solve(np.eye(N) - view.gamma * P, r)
    ones = np.array([0.0 if s in view.absorbing else 1.0 for s in range(N)])
    try:
        steps = np.linalg.solve(np.eye(N) - P, ones)
        if (steps < -1e-9).any() or not np.isfinite(steps).all():
            steps = np.full(N, np.inf)
    except np.linalg.LinAlgError:
        steps = np.full(N, np.inf)
    return V, steps


def game_W(view):
    """W(s) = 1 + max_a min_{s' in supp T(s,a)} W(s'); W(absorbing)=0.
    Finite everywhere iff the MDP is proper (every policy reaches absorption)."""
    INF = float('inf')
    W = {s: (0 if s in view.absorbing else INF) for s in range(view.N)}
    for _ in range(view.N + 1):
        changed = False
        for s in range(view.N):
            if s in view.absorbing:
                continue
            v = 1 + max(min(W[t] for t in view.T[s, a]) for a in view.A[s])
            if v < W[s]:
                W[s] = v
                changed = True
        if not changed:
            break
    return W


def reach_prob_positive(view, pol, src):
    """states reachable with positive probability from src under pol (dict s->{a:p})."""
    seen = {src}
    fr = [src]
    while fr:
        s = fr.pop()
        if s in view.absorbing:
            continue
        for a, pa in pol(s).items():
            if pa <= 0:
                continue
            for t in view.T[s, a]:
                if t not in seen:
                    seen.add(t)
                    fr.append(t)
    return seen


# ------------------------------------------------------------------- graphs
def dijkstra(gv, unit=False):
    d = {gv.src: 0}
    pq = [(0, gv.src)]
    while pq:
        c, s = heapq.heappop(pq)
        if c > d[s]:
            continue
        if s in gv.goals:
            continue
        for a in gv.A.get(s, []):
            t, w = gv.E[s, a]
            w = 1 if unit else w
            if c + w < d.get(t, float('inf')):
                d[t] = c + w
                heapq.heappush(pq, (c + w, t))
    return d


def cost_to_go(gv):
    h = {s: (0 if s in gv.goals else float('inf')) for s in range(gv.n)}
    for _ in range(gv.n + 1):
        for (s, a), (t, w) in gv.E.items():
            if s not in gv.goals and w + h[t] < h[s]:
                h[s] = w + h[t]
    return h


# ----------------------------------------------------- controller x POMDP chain
def pomdp_arrays(pv, obs_order=None):
    """obs_order: spec observation ids in the order of the model's observation
    index (a controller's observation axis is defined relative to that index)."""
    T = np.zeros((pv.nS, pv.nA, pv.nS))
    R = np.zeros((pv.nS, pv.nA))
    O = np.zeros((pv.nA, pv.nS, pv.nO))
    for (s, a), d in pv.T.items():
        for t, p in d.items():
            T[s, a, t] = p
            R[s, a] += p * pv.R[s, a, t]
    for (a, t), d in pv.Ob.items():
        for o, p in d.items():
            O[a, t, o] = p
    if obs_order is not None:
        O = O[:, :, list(obs_order)]
    return T, R, O


def fsc_value(pv, As, Ns, end_on_absorbing=True, obs_order=None):
    """Value of running controller (As[n,a], Ns[n,a,o,m]) from each (node,state).
    end_on_absorbing: an episode ends on entering an absorbing state (no action
    is taken there, nothing is earned there)."""
    T, R, O = pomdp_arrays(pv, obs_order)
    nN = As.shape[0]
    nS = pv.nS
    live = np.array([0.0 if (end_on_absorbing and s in pv.absorbing) else 1.0 for s in range(nS)])
    # chain over (n,s) -> (m,t)
    M = np.einsum('na,sat,ato,naom->nsmt', As, T, O, Ns)
    M = M * live[None, :, None, None]
    C = (As @ R.T) * live[None, :]
    K = nN * nS
    V = np.linalg.solve(np.eye(K) - pv.gamma * M.reshape(K, K), C.reshape(K))
    return V.reshape(nN, nS)

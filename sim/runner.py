"""Batch driver shared by all checks: seeded runs across worker processes,
regression corpus, minimisation, known findings, evidence, exit codes."""
import os
import sys
import json
import time
import copy
import random
import signal
import hashlib
import traceback
import faulthandler
import multiprocessing
from concurrent.futures import ProcessPoolExecutor, as_completed

from .core import Violation, Inconclusive, HarnessError, load_script

VERIF = os.path.dirname(os.path.dirname(os.path.abspath(__file__)))
RUN_WALL_LIMIT = 120       # seconds for a single simulated run (hang detector)


def repo_path():
    return os.environ.get('MSDM_VERIF_REPO', '/repo')


class _RunTimeout(BaseException):
    pass


def _alarm(signum, frame):
    raise _RunTimeout()


def run_case(mod, case, script=None, wall_limit=None):
    """Execute one case; classify the outcome.  Returns a dict:
    status in ok / violation / inconclusive / timeout / harness_error"""
    t0 = time.perf_counter()
    old = signal.signal(signal.SIGALRM, _alarm)
    signal.setitimer(signal.ITIMER_REAL, wall_limit or RUN_WALL_LIMIT)
    out = {}
    try:
        try:
            res = mod.execute(case, script=script)
            out = dict(res)
            out.setdefault('status', 'ok')
        except Violation as v:
            out = dict(getattr(v, 'partial', {}) or {})
            out.update(status='violation', clause=v.clause, message=v.message,
                       key=v.data.get('key', v.clause), vdata={k: x for k, x in v.data.items() if k != 'key'})
        except Inconclusive as e:
            out = dict(getattr(e, 'partial', {}) or {})
            out.update(status='inconclusive', message=str(e))
        except _RunTimeout:
            out = dict(status='timeout', message=f'run exceeded {wall_limit or RUN_WALL_LIMIT}s wall clock')
        except Exception as e:
            out = dict(status='harness_error', message=''.join(traceback.format_exception(type(e), e, e.__traceback__))[-4000:])
    finally:
        signal.setitimer(signal.ITIMER_REAL, 0)
        signal.signal(signal.SIGALRM, old)
    out['wall'] = time.perf_counter() - t0
    return out


def make_case(mod, seed, idx, tier):
    rng = random.Random(f"{seed}:{mod.PROP}:{idx}")
    case = mod.gen_case(rng, tier, idx)
    case['verif_seed'] = seed
    case['index'] = idx
    return case


def _worker(modname, seed, idxs, tier, want_lines=False):
    """Runs a chunk of indices; returns an aggregate (per-run data only for runs that need attention)."""
    faulthandler.enable()
    mod = sys.modules.get(modname) or __import__(modname, fromlist=['x'])
    try:
        import torch
        torch.set_num_threads(1)
    except Exception:
        pass
    agg = dict(n=0, counts={}, fired={}, probes={}, decisions=0, steps=0, digests=set(), samples=[], known={}, attention=[], lines=[])
    for idx in idxs:
        case = make_case(mod, seed, idx, tier)
        out = run_case(mod, case)
        accumulate(agg, _summary(mod, case, out, idx), want_lines)
    agg['digests'] = list(agg['digests'])
    return agg


def _summary(mod, case, out, idx):
    summ = dict(index=idx, status=out['status'], digest=out.get('digest'), stats=out.get('stats', {}),
                wall=out['wall'], nontrivial=bool(out.get('nontrivial', False)), known=out.get('known', []))
    if out['status'] in ('violation', 'harness_error', 'timeout', 'inconclusive'):
        summ.update(clause=out.get('clause'), message=out.get('message'), key=out.get('key'))
    if out['status'] == 'violation':
        summ['case'] = case
        summ['script'] = out.get('script')
    if (isinstance(idx, int) and idx < 3) or (out.get('nontrivial') and isinstance(idx, int) and idx % 997 == 0):
        summ['sample'] = mod.sample_repr(case, out)
    return summ


def accumulate(agg, s, want_lines=False):
    agg['n'] += 1
    agg['counts'][s['status']] = agg['counts'].get(s['status'], 0) + 1
    st = s.get('stats') or {}
    agg['decisions'] += st.get('decisions', 0)
    agg['steps'] += st.get('steps', 0)
    for k, v in (st.get('fired') or {}).items():
        agg['fired'][k] = agg['fired'].get(k, 0) + v
    for k, v in (st.get('probes') or {}).items():
        agg['probes'][k] = agg['probes'].get(k, 0) + v
    if s.get('nontrivial') and s.get('digest'):
        agg['digests'].add(int(s['digest'][:15], 16))
    if 'sample' in s and len(agg['samples']) < 6:
        agg['samples'].append(s['sample'])
    for k in s.get('known', []):
        agg['known'][k] = agg['known'].get(k, 0) + 1
    if s['status'] in ('violation', 'harness_error', 'timeout'):
        if s['status'] != 'violation' or sum(1 for a in agg['attention'] if a.get('key') == s.get('key') and a.get('clause') == s.get('clause')) < 2:
            agg['attention'].append(s)
        else:
            agg['attention'].append(dict(index=s['index'], status='violation', clause=s.get('clause'), key=s.get('key'), message=s.get('message'), dup=True))
    if want_lines:
        agg['lines'].append(f"{s['index']} {s['status']} {s['digest']}")


def merge(a, b):
    a['n'] += b['n']
    for f in ('counts', 'fired', 'probes', 'known'):
        for k, v in b[f].items():
            a[f][k] = a[f].get(k, 0) + v
    a['decisions'] += b['decisions']
    a['steps'] += b['steps']
    a['digests'].update(b['digests'])
    for x in b['samples']:
        if len(a['samples']) < 6:
            a['samples'].append(x)
    a['attention'].extend(b['attention'])
    a['lines'].extend(b['lines'])


# ---------------------------------------------------------------- minimiser
def same_failure(out, clause, key):
    return out.get('status') == 'violation' and out.get('clause') == clause and out.get('key') == key


def minimise(mod, case, script, clause, key, max_exec=300, max_wall=40.0):
    t0 = time.time()
    n_exec = [0]
    best_case, best_script = case, script

    def trial(c, s):
        if n_exec[0] >= max_exec or time.time() - t0 > max_wall:
            return None
        n_exec[0] += 1
        if s is not None and isinstance(c.get('sched'), dict):
            c = dict(c)
            c['sched'] = dict(c['sched'])
            c['sched']['cap'] = min(c['sched'].get('cap', 50000), 5 * len(s) + 500)
        out = run_case(mod, c, script=s, wall_limit=10)
        if same_failure(out, clause, key):
            return out
        return None

    # 0. does it reproduce in script mode at all?
    out = trial(best_case, best_script)
    if out is None:
        return case, script, dict(reproduced=False, executions=n_exec[0])
    best_script = out.get('script', best_script)

    # 1. shrink the case (configuration first, then the model)
    progress = True
    while progress:
        progress = False
        if not hasattr(mod, 'shrink'):
            break
        for cand in mod.shrink(best_case):
            out = trial(cand, best_script)
            if out is None and best_script is not None:
                pass
            if out is not None:
                best_case = cand
                best_script = out.get('script', best_script)
                progress = True
                break
            if n_exec[0] >= max_exec or time.time() - t0 > max_wall:
                break
    # 2. truncate the script (tail falls back to defaults)
    if best_script:
        lo, hi = 0, len(best_script)
        while lo < hi:
            mid = (lo + hi) // 2
            out = trial(best_case, best_script[:mid])
            if out is not None:
                hi = mid
            else:
                lo = mid + 1
            if n_exec[0] >= max_exec or time.time() - t0 > max_wall:
                break
        cand = best_script[:hi]
        out = trial(best_case, cand)
        if out is not None:
            best_script = cand
    # 3. zero individual decisions (last to first), bounded
    if best_script:
        for i in range(len(best_script) - 1, -1, -1):
            e = best_script[i]
            z = None
            if e[0] == 'i' and e[1] != 0:
                z = ['i', 0]
            elif e[0] == 'f' and e[1] != 0.0:
                z = ['f', 0.0]
            elif e[0] == 'p' and list(e[1]) != sorted(e[1]):
                z = ['p', sorted(e[1])]
            if z is None:
                continue
            cand = best_script[:i] + [z] + best_script[i + 1:]
            out = trial(best_case, cand)
            if out is not None:
                best_script = cand
            if n_exec[0] >= max_exec or time.time() - t0 > max_wall:
                break
    return best_case, best_script, dict(reproduced=True, executions=n_exec[0], wall=round(time.time() - t0, 2))


# ---------------------------------------------------------------- findings
def load_known():
    p = os.path.join(VERIF, 'known_findings.json')
    if not os.path.exists(p):
        return dict(open=[], fixed=[])
    with open(p) as f:
        return json.load(f)


def write_replay(prop, name, payload):
    d = os.path.join(VERIF, 'replays', prop)
    os.makedirs(d, exist_ok=True)
    p = os.path.join(d, name)
    with open(p, 'w') as f:
        json.dump(payload, f, indent=1, sort_keys=True, default=str)
    return p


def replay_file(mod, path, quiet=False):
    with open(path) as f:
        payload = json.load(f)
    out = run_case(mod, payload['case'], script=payload.get('script'))
    ok = same_failure(out, payload['clause'], payload.get('key', payload['clause']))
    if not quiet:
        print(f"replay {path}: status={out['status']} clause={out.get('clause')} key={out.get('key')}")
        print(f"  message: {out.get('message')}")
        if payload.get('message') is not None and out.get('message') != payload.get('message'):
            print(f"  (recorded message: {payload.get('message')})")
    return ok, out, payload


# -------------------------------------------------------------------- main
def main(mod, argv=None):
    import argparse
    ap = argparse.ArgumentParser()
    ap.add_argument('--tier', default=os.environ.get('VERIF_TIER', 'quick'))
    ap.add_argument('--replay')
    ap.add_argument('--runs', type=int)
    ap.add_argument('--workers', type=int, default=int(os.environ.get('VERIF_WORKERS', '0')) or min(16, os.cpu_count() or 1))
    ap.add_argument('--no-evidence', action='store_true')
    ap.add_argument('--digests', help='write per-run digests to this file (determinism self-test)')
    ap.add_argument('--start', type=int, default=0)
    ap.add_argument('--runs-only', action='store_true', help='skip the extra phase (C13 cross-process)')
    args = ap.parse_args(argv)
    seed = int(os.environ.get('VERIF_SEED', '0'))
    prop = mod.PROP
    t_start = time.time()

    if args.replay:
        ok, out, payload = replay_file(mod, args.replay)
        if ok:
            print(f"VIOLATION property={prop} replay={args.replay}")
            return 1
        if out['status'] == 'harness_error':
            print(out['message'])
            return 2
        print("NOT-REPRODUCED")
        return 2

    # import everything once in the parent so forked workers share it
    if hasattr(mod, 'preload'):
        mod.preload()
    try:
        import torch
        torch.set_num_threads(1)
    except Exception:
        pass
    tier = args.tier
    n_runs = args.runs or (mod.QUICK_RUNS if tier == 'quick' else mod.THOROUGH_RUNS)
    budget = getattr(mod, 'QUICK_WALL', 150) if tier == 'quick' else getattr(mod, 'THOROUGH_WALL', 1500)
    known = load_known()
    open_keys = {e['key']: e for e in known.get('open', []) if e.get('property') == prop}

    violations = []      # dicts with clause,key,message,case,script,index
    known_hits = {}      # key -> count
    broken = []

    # --- 1. regression corpus: minimised replays of every finding (open or fixed)
    corpus_dir = os.path.join(VERIF, 'findings', prop)
    corpus = sorted(os.listdir(corpus_dir)) if os.path.isdir(corpus_dir) else []
    corpus_runs = 0
    for name in corpus:
        if not name.endswith('.json'):
            continue
        path = os.path.join(corpus_dir, name)
        ok, out, payload = replay_file(mod, path, quiet=True)
        corpus_runs += 1
        if out['status'] == 'harness_error':
            broken.append(('corpus:' + name, out['message']))
        elif out['status'] == 'violation':
            violations.append(dict(clause=out['clause'], key=out['key'], message=out['message'],
                                   case=payload['case'], script=out.get('script'), index='corpus:' + name))
        for k in out.get('known', []):
            known_hits[k] = known_hits.get(k, 0) + 1

    # --- 1a. corpus variants: every past finding replayed under every key kind (strings, tuples, frozendicts, negative
    #     ints, ints with a falsy first action ...) and every rotation of the action ids - the same history, other labels
    if getattr(mod, 'CORPUS_VARIANTS', False):
        from .models import KEY_KINDS
        for name in corpus:
            if not name.endswith('.json'):
                continue
            with open(os.path.join(corpus_dir, name)) as f:
                payload = json.load(f)
            case0 = payload.get('case') or {}
            spec0 = case0.get('spec')
            if not isinstance(spec0, dict) or 'trans' not in spec0 or 'nA' not in spec0:
                continue
            nA = spec0['nA']
            for kind in KEY_KINDS:
                for rot in range(nA):
                    if kind == spec0.get('kind') and rot == 0:
                        continue
                    c = copy.deepcopy(case0)
                    c['spec']['kind'] = kind
                    for tr in c['spec']['trans']:
                        tr[1] = (tr[1] + rot) % nA
                    c['spec']['trans'].sort(key=lambda tr: (tr[0], tr[1]))
                    out = run_case(mod, c, script=payload.get('script'))
                    corpus_runs += 1
                    tag = f'corpus-variant:{name}:{kind}:rot{rot}'
                    if out['status'] == 'harness_error':
                        broken.append((tag, out['message']))
                    elif out['status'] == 'violation':
                        violations.append(dict(clause=out['clause'], key=out['key'], message=out['message'],
                                               case=c, script=out.get('script'), index=tag))
                    for k in out.get('known', []):
                        known_hits[k] = known_hits.get(k, 0) + 1

    # --- 1b. property-specific extra phase (C13: fresh interpreters under other hash seeds)
    extra = []
    if hasattr(mod, 'extra_phase') and not args.runs_only:
        try:
            extra = mod.extra_phase(seed, tier, args.workers)
        except Exception as e:
            broken.append(('extra_phase', ''.join(traceback.format_exception(type(e), e, e.__traceback__))[-3000:]))

    # --- 2. seeded search
    chunk = getattr(mod, 'CHUNK', 25)
    idxs = list(range(args.start, args.start + n_runs))
    chunks = [idxs[i:i + chunk] for i in range(0, len(idxs), chunk)]
    total = dict(n=0, counts={}, fired={}, probes={}, decisions=0, steps=0, digests=set(), samples=[], known={}, attention=[], lines=[])
    for sm_ in extra:
        accumulate(total, sm_, bool(args.digests))
    modname = mod.__name__
    ctx = multiprocessing.get_context('fork')
    timed_out_chunks = 0
    want_lines = bool(args.digests)
    if args.workers <= 1:
        for c in chunks:
            if time.time() - t_start > budget:
                timed_out_chunks += 1
                continue
            merge(total, _worker(modname, seed, c, tier, want_lines))
    else:
        with ProcessPoolExecutor(max_workers=args.workers, mp_context=ctx) as ex:
            pending = {}
            it = iter(chunks)
            results = {}

            def submit_next():
                try:
                    c = next(it)
                except StopIteration:
                    return False
                if time.time() - t_start > budget:
                    return None
                pending[ex.submit(_worker, modname, seed, c, tier, want_lines)] = c
                return True
            for _ in range(args.workers * 2):
                if not submit_next():
                    break
            while pending:
                done = next(as_completed(list(pending)))
                c = pending.pop(done)
                try:
                    results[c[0]] = done.result()
                except Exception as e:
                    broken.append((f'chunk@{c[0]}', f'worker died: {e!r}'))
                r = submit_next()
                if r is None:
                    timed_out_chunks += 1
                    for _c in it:
                        timed_out_chunks += 1
                if len(results) > 64:
                    # merge in index order as far as possible to bound memory
                    pass
            for k in sorted(results):
                merge(total, results[k])

    if args.digests:
        with open(args.digests, 'w') as f:
            for line in total['lines']:
                f.write(line + "\n")

    counts = total['counts']
    fired = total['fired']
    probes = total['probes']
    decisions, steps = total['decisions'], total['steps']
    digests = total['digests']
    samples = total['samples']
    n_search = total['n']
    for k, v in total['known'].items():
        known_hits[k] = known_hits.get(k, 0) + v
    for s in total['attention']:
        if s['status'] == 'violation':
            violations.append(s)
        else:
            broken.append((s['index'], s.get('message')))

    # --- 3. classify violations: known finding or new
    new_by_key = {}
    for v in violations:
        k = v['key']
        if k in open_keys:
            known_hits[k] = known_hits.get(k, 0) + 1
        else:
            new_by_key.setdefault((v['clause'], k), []).append(v)

    exit_code = 0
    reported = []
    for (clause, key), vs in sorted(new_by_key.items(), key=lambda kv: str(kv[0]))[:6]:
        v = next((x for x in vs if 'case' in x), None)
        if v is None:
            continue
        base = f"{prop}_{hashlib.sha1((clause + '|' + str(key) + '|' + str(v['index'])).encode()).hexdigest()[:10]}"
        orig = dict(property=prop, clause=clause, key=key, message=v['message'], case=v['case'],
                    script=v.get('script'), verif_seed=seed, index=v['index'], minimised=False)
        write_replay(prop, base + '.orig.json', orig)
        mc, ms, info = minimise(mod, copy.deepcopy(v['case']), v.get('script'), clause, key)
        out = run_case(mod, mc, script=ms)
        payload = dict(property=prop, clause=clause, key=key, message=out.get('message', v['message']), case=mc,
                       script=out.get('script', ms), verif_seed=seed, index=v['index'], minimised=True, minimiser=info,
                       others_with_same_key=len(vs) - 1)
        if not same_failure(out, clause, key):
            payload = orig
        path = write_replay(prop, base + '.json', payload)
        print(f"VIOLATION property={prop} replay={path}")
        print(f"  clause={clause} key={key} runs_with_this_key={len(vs)} first_index={v['index']}")
        print(f"  {payload['message']}")
        reported.append(path)
        exit_code = 1
    for k, cnt in sorted(known_hits.items()):
        if k in open_keys:
            print(f"KNOWN-FINDING: property={prop} {open_keys[k]['what']} [key={k}; met {cnt}x in this run]")
    for e in known.get('open', []):
        if e.get('property') == prop and e['key'] not in known_hits:
            print(f"KNOWN-FINDING: property={prop} {e['what']} [key={e['key']}; not met in this run]")

    if broken:
        print(f"BROKEN-HARNESS property={prop}: {len(broken)} run(s) failed inside the harness")
        for idx, msg in broken[:3]:
            print(f"--- run {idx}\n{msg}")
        if exit_code == 0:
            exit_code = 2

    wall = time.time() - t_start
    n_eval = n_search + corpus_runs
    ok_runs = counts.get('ok', 0)
    print(f"{prop} tier={tier} seed={seed} runs={n_search} corpus={corpus_runs} ok={ok_runs} "
          f"violations={len(violations)} inconclusive={counts.get('inconclusive', 0)} "
          f"distinct_histories={len(digests)} decisions={decisions} steps={steps} wall={wall:.1f}s "
          f"runs/hour={int(n_search / max(wall, 1e-9) * 3600)}")
    if timed_out_chunks:
        print(f"note: wall budget {budget}s reached; {timed_out_chunks} chunk(s) of {len(chunks)} not started")
    stuck = [k for k, v in probes.items() if v == 0]
    if stuck:
        print(f"warning: reach probes at zero: {stuck}")

    if not args.no_evidence and n_search > 0:
        ev = dict(
            property_id=prop, tier=tier if tier in ('quick', 'thorough') else 'quick', seed=seed,
            level='exploration',
            coverage=dict(
                evaluations=n_eval,
                distinct_nontrivial=len(digests),
                rule=mod.RULE,
                samples=samples or [dict(note='no sample recorded')],
                runs_ok=ok_runs,
                runs_inconclusive=counts.get('inconclusive', 0),
                regression_corpus_replays=corpus_runs,
                decision_points=decisions,
                environment_steps=steps,
                simulated_time=f"{decisions} decision points + {steps} environment steps (msdm has no clock; see DESIGN 1)",
                runs_per_hour=int(n_search / max(wall, 1e-9) * 3600),
                seeds=f"VERIF_SEED={seed}, run indices {args.start}..{args.start + n_search - 1}",
                faults_fired=fired,
                reach_probes=probes,
                real_components=mod.REAL,
                stub_components=mod.STUB,
                known_findings_met=known_hits,
                chunks_not_started_wall_budget=timed_out_chunks,
            ),
            assumptions=mod.ASSUMPTIONS,
            wall_s=round(wall, 2),
            violations=len(violations),
        )
        os.makedirs(os.path.join(VERIF, 'evidence'), exist_ok=True)
        with open(os.path.join(VERIF, 'evidence', f'{prop}.json'), 'w') as f:
            json.dump(ev, f, indent=1, sort_keys=True, default=str)
    return exit_code

"""Entry point: python sim/main.py <ID> [options] (use ./check)."""
import os
import sys
import warnings

VERIF = os.path.dirname(os.path.dirname(os.path.abspath(__file__)))
sys.path.insert(0, VERIF)
sys.path.insert(0, os.environ.get('MSDM_VERIF_REPO', '/repo'))
warnings.filterwarnings('ignore')


def main():
    if len(sys.argv) < 2:
        print("usage: check <ID> [--tier quick|thorough] [--replay FILE]")
        return 2
    pid = sys.argv[1].upper()
    import importlib
    import msdm
    want = os.path.realpath(os.environ.get('MSDM_VERIF_REPO', '/repo'))
    if not os.path.realpath(msdm.__file__).startswith(want + os.sep):
        print(f"BROKEN-HARNESS: msdm imported from {msdm.__file__}, expected under {want}")
        return 2
    if pid == 'SELFTEST':
        from sim import selftest
        return selftest.main(sys.argv[2:])
    mod = importlib.import_module('checks.' + pid.lower())
    from sim import runner
    return runner.main(mod, sys.argv[2:])


if __name__ == '__main__':
    sys.exit(main())

"""Admissible heuristics for LAO*/LRTDP workloads, described JSON-ably."""


def gen_heuristic(rng, kinds=('const', 'zero', 'exact', 'slack', 'slack_abs', 'noisy')):
    k = rng.choice(kinds)
    # (absorbing states are worth 0 whatever the heuristic says there: any finite number, or the trivial upper bound +inf)
    return dict(kind=k, slack=rng.choice((0.5, 2.0, 1.0)), at_abs=rng.choice((0.0, 0.0, 3.0, -2.0, 7.5, 7.5, float('inf'))),
                noise_seed=rng.randrange(1 << 30))


def build_heuristic(h, view, Vstar):
    """Returns (table id->value, description).  Always >= V* at non-absorbing
    states; the value at absorbing states is arbitrary (they are worth 0 whatever
    the heuristic says)."""
    import random
    g = view.gamma
    rmin, rmax = view.rmin_rmax() if view.n > 0 else (0.0, 0.0)
    vmax = max([0.0] + [float(Vstar[s]) for s in range(view.N) if s not in view.absorbing])
    tab = {}
    kind = h['kind']
    if kind == 'const':
        c = max(0.0, rmax) / (1 - g) if g < 1 else vmax + h['slack']
        c = max(c, vmax)
        for s in range(view.N):
            tab[s] = c
        # "constant bound" is also applied to absorbing states (non-zero there) unless at_abs says otherwise
        for s in view.absorbing:
            tab[s] = c if h['at_abs'] == 0.0 else h['at_abs']
    elif kind == 'zero':
        # the classic optimistic constant: 0 is an upper bound as soon as no reward is positive;
        # otherwise the smallest integer bound (exact ties with integer rewards are what it is for)
        import math
        c = 0.0 if rmax <= 0 else float(math.ceil(max(vmax, max(0.0, rmax) / (1 - g) if g < 1 else vmax)))
        for s in range(view.N):
            tab[s] = c
        for s in view.absorbing:
            tab[s] = c if h['at_abs'] == 0.0 else h['at_abs']
    elif kind == 'exact':
        for s in range(view.N):
            tab[s] = float(Vstar[s])
        for s in view.absorbing:
            tab[s] = 0.0
    elif kind == 'slack':
        for s in range(view.N):
            tab[s] = float(Vstar[s]) + h['slack']
        for s in view.absorbing:
            tab[s] = 0.0
    elif kind == 'slack_abs':
        for s in range(view.N):
            tab[s] = float(Vstar[s]) + h['slack']
        for s in view.absorbing:
            tab[s] = h['at_abs'] if h['at_abs'] != 0.0 else h['slack']
    elif kind == 'noisy':
        r = random.Random(h['noise_seed'])
        for s in range(view.N):
            tab[s] = float(Vstar[s]) + r.choice((0.0, 0.25, 1.0, 3.0))
        for s in view.absorbing:
            tab[s] = r.choice((0.0, h['at_abs']))
    else:
        raise ValueError(kind)
    return tab


def is_monotone(tab, view, tol=4e-16):
    """h(s) >= max_a sum_t p (r + gamma h'(t)) with h'(absorbing)=0, at every non-absorbing state.
    The tolerance is rounding error only: a heuristic that violates the inequality by 1e-9 per state (rewards of
    1e-9 under a constant bound) lets values rise by 1e-9 per level, which adds up beyond any per-step tolerance
    of the clauses that assume monotonicity - such a heuristic is simply not monotone."""
    g = view.gamma
    for s in range(view.N):
        if s in view.absorbing:
            continue
        best = max(sum(p * (view.R[s, a, t] + g * (0.0 if t in view.absorbing else tab[t])) for t, p in view.T[s, a].items())
                   for a in view.A[s])
        if best > tab[s] + tol * (1 + abs(tab[s])):
            return False
    return True

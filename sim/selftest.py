"""Determinism self-test of the harness (DESIGN 9).

For each claimed property the same VERIF_SEED x run indices are executed
  A: 16 workers, PYTHONHASHSEED=0           B: again (same settings)
  C: 1 worker                               D: 16 workers, PYTHONHASHSEED=1
  E: 16 workers, PYTHONHASHSEED=random
and the per-run (status, event-log digest) files must be byte-identical.
Usage: ./check SELFTEST [--props C03,C10] [--n 300] [--seed 5]
"""
import os
import sys
import subprocess
import tempfile
import argparse

VERIF = os.path.dirname(os.path.dirname(os.path.abspath(__file__)))
ALL = ['C03', 'C04', 'C05', 'C09', 'C10', 'C13', 'C14', 'C15', 'C17']


def run(prop, n, seed, workers, hashseed, out):
    env = dict(os.environ)
    env['VERIF_SEED'] = str(seed)
    env['VERIF_PYTHONHASHSEED'] = str(hashseed)
    cmd = [os.path.join(VERIF, 'check'), prop, '--runs', str(n), '--runs-only', '--no-evidence', '--digests', out, '--workers', str(workers)]
    p = subprocess.run(cmd, env=env, stdout=subprocess.PIPE, stderr=subprocess.STDOUT, text=True, timeout=3000)
    return p.returncode, p.stdout


def main(argv):
    ap = argparse.ArgumentParser()
    ap.add_argument('--props', default=','.join(ALL))
    ap.add_argument('--n', type=int, default=300)
    ap.add_argument('--seed', type=int, default=5)
    a = ap.parse_args(argv)
    bad = 0
    tmp = tempfile.mkdtemp(prefix='selftest_', dir=os.path.join(VERIF, '.scratch') if os.path.isdir(os.path.join(VERIF, '.scratch')) else None)
    for prop in a.props.split(','):
        n = a.n if prop not in ('C13',) else max(40, a.n // 4)
        configs = [('A', 16, 0), ('B', 16, 0), ('C', 1, 0), ('D', 16, 1), ('E', 16, 'random')]
        files = {}
        for name, w, hs in configs:
            f = os.path.join(tmp, f'{prop}_{name}.txt')
            rc, out = run(prop, n, a.seed, w, hs, f)
            if rc not in (0, 1):
                print(f"{prop} config {name}: check exited {rc}\n{out[-1500:]}")
                bad += 1
            files[name] = open(f).read() if os.path.exists(f) else None
        base = files['A']
        same = all(files[k] == base and base for k in files)
        lines = len(base.splitlines()) if base else 0
        print(f"{prop}: {lines} runs x {len(configs)} configurations (workers 16/16/1/16/16, PYTHONHASHSEED 0/0/0/1/random): "
              f"{'IDENTICAL' if same else 'DIFFER'}")
        if not same:
            bad += 1
            for k in files:
                if files[k] != base:
                    a_, b_ = (base or '').splitlines(), (files[k] or '').splitlines()
                    diff = [(x, y) for x, y in zip(a_, b_) if x != y][:5]
                    print(f"   config {k} differs at: {diff}")
    for f in os.listdir(tmp):
        os.remove(os.path.join(tmp, f))
    os.rmdir(tmp)
    print("SELFTEST", "FAILED" if bad else "PASSED")
    return 1 if bad else 0

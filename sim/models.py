"""Workload specs (plain JSON-able tables owned by the harness) and their
exposure through msdm's model interfaces.

A spec never contains msdm objects.  States/actions/observations are integer
ids in the spec; `keymap` turns them into the hashable keys msdm sees (ints,
strings, tuples or frozendicts, one kind per workload).
"""
import random as _pyrandom

from .core import HarnessError

SEAM_RANGES = ("model seam (what the generated table models look like to msdm): <= 6 non-absorbing states unless stated otherwise (a few % 10-20); "
               "transition probabilities multiples of 1/8, in 12% of the models thirds / elevenths that sum to 1 only up to rounding; rewards from small sets "
               "such as {-3..3, +-0.5}, a few % scaled by 1e6 or 1e-9, handed back as float, numpy.float64 or (when integral) int; state / action keys "
               "int, str, tuple, frozendict, negative ints (equal hashes), 0-based ints (falsy), float twins; distributions written as literals, as `|`-mixtures "
               "of scaled point masses, or as Deterministic / Uniform distributions; initial states given by call-back, by object or by initial_state=; "
               "action lists fresh, cached per state, shared by all states, or tuples")

KEY_KINDS = ('int', 'str', 'tuple', 'fd', 'negint', 'int0')


def skey(kind, i):
    if kind == 'int0':
        # ints again, but the action ids start at 0: the first action is a falsy key
        return 10 + i
    if kind == 'negint':
        # negative ints: in CPython hash(-1) == hash(-2), two unequal keys with one hash
        return -(0 + i + 1)
    if kind == 'float':
        # twin of 'int': keys that compare (and hash) equal to the int keys but are of another type
        return float(i)
    if kind == 'fdf':
        from frozendict import frozendict
        return frozendict(s=float(i))
    if kind == 'int':
        return i
    if kind == 'str':
        return 's%d' % i
    if kind == 'tuple':
        return ('s', str(i))
    if kind == 'fd':
        from frozendict import frozendict
        return frozendict(s=i)
    raise HarnessError(kind)


def akey(kind, i):
    if kind == 'int0':
        # ints again, but the action ids start at 0: the first action is a falsy key
        return i
    if kind == 'negint':
        # negative ints: in CPython hash(-1) == hash(-2), two unequal keys with one hash
        return -(100 + i + 1)
    if kind == 'float':
        # twin of 'int': keys that compare (and hash) equal to the int keys but are of another type
        return float(100 + i)
    if kind == 'fdf':
        from frozendict import frozendict
        return frozendict(a=float(i))
    if kind == 'int':
        return 100 + i
    if kind == 'str':
        return 'a%d' % i
    if kind == 'tuple':
        return ('a', str(i))
    if kind == 'fd':
        from frozendict import frozendict
        return frozendict(a=i)
    raise HarnessError(kind)


def okey(kind, i):
    if kind == 'int0':
        # ints again, but the action ids start at 0: the first action is a falsy key
        return 200 + i
    if kind == 'negint':
        # negative ints: in CPython hash(-1) == hash(-2), two unequal keys with one hash
        return -(200 + i + 1)
    if kind == 'float':
        # twin of 'int': keys that compare (and hash) equal to the int keys but are of another type
        return float(200 + i)
    if kind == 'fdf':
        from frozendict import frozendict
        return frozendict(o=float(i))
    if kind == 'int':
        return 200 + i
    if kind == 'str':
        return 'o%d' % i
    if kind == 'tuple':
        return ('o', str(i))
    if kind == 'fd':
        from frozendict import frozendict
        return frozendict(o=i)
    raise HarnessError(kind)


def dyadic(rng, k, denom=8):
    """k positive integers summing to denom."""
    if k == 1:
        return [denom]
    cuts = sorted(rng.sample(range(1, denom), k - 1))
    return [b - a for a, b in zip([0] + cuts, cuts + [denom])]


def probs_of(weights, skew=0):
    """Probabilities for a list of integer weights in eighths.  skew=0: w/8 (exact binary fractions).  skew=k>0: the i-th
    positive weight becomes w+(i+1)k and the list is divided by its new sum - thirds, elevenths, ... that add up to 1 only
    up to rounding, like the probabilities of most hand-written models (zero entries stay zero, the support is unchanged)."""
    if not skew or any(isinstance(w, float) for w in weights):
        return [w / 8.0 for w in weights]
    out, i = [], 0
    for w in weights:
        if w > 0:
            i += 1
            out.append(w + i * skew)
        else:
            out.append(0)
    tot = sum(out)
    return [w / tot for w in out]


# --------------------------------------------------------------------- MDP spec
def gen_mdp_spec(rng, *, proper, max_states=6, max_actions=3, discounts=(0.5, 0.8, 0.9, 0.95, 0.99, 1.0),
                 nonpositive=False, uniform_actions=False, kinds=KEY_KINDS, zero_entries=True,
                 rewards=None, absorbing_reward=True, min_states=1, extreme=False, leftover_abs=False, huge=False):
    """Random table MDP.

    states 0..n-1 are non-absorbing, n..n+g-1 are explicit absorbing states.
    proper=True: every (s,a) has a positive-probability successor of strictly
    lower level or an absorbing state, so every policy reaches absorption w.p.1.
    """
    n = rng.randint(min_states, max_states)
    g = rng.choice((1, 1, 1, 2))
    nA = rng.randint(1, max_actions)
    gamma = rng.choice(discounts)
    if nonpositive or gamma == 1.0:
        rchoices = rewards or (0.0, -1.0, -1.0, -2.0, -0.5, -3.0)
    else:
        rchoices = rewards or (-2.0, -1.0, -1.0, 0.0, 1.0, 0.5, 2.0)
    if extreme:
        # a few per cent of the workloads carry rewards of magnitude 1e6 or 1e-9 (the oracles' tolerances are relative)
        u = rng.random()
        if u < 0.03:
            rchoices = tuple(r * 1e6 for r in rchoices)
        elif u < 0.05:
            rchoices = tuple(r * 1e-9 for r in rchoices)
        elif u < 0.06 and huge:
            rchoices = tuple(r * 1e9 for r in rchoices)      # values beyond 2**63 / 1e10: fixed-point tricks overflow here
    level = list(range(n))
    rng.shuffle(level)
    absorbing = list(range(n, n + g))
    if not proper and gamma < 1.0 and rng.random() < 0.3:
        # no explicit absorbing state reachable is fine for discounted problems
        pass
    trans = []
    A = {}
    for s in range(n):
        if uniform_actions:
            A[s] = list(range(nA))
        else:
            A[s] = sorted(rng.sample(range(nA), rng.randint(1, nA)))
        for a in A[s]:
            succ = set()
            if proper:
                lower = [t for t in range(n) if level[t] < level[s]] + absorbing
                succ.add(rng.choice(lower))
            else:
                succ.add(rng.randrange(n + g))
            for _ in range(rng.randint(0, 2)):
                succ.add(rng.randrange(n + g))
            succ = sorted(succ)
            ps = dyadic(rng, len(succ))
            outs = [[t, p, rng.choice(rchoices)] for t, p in zip(succ, ps)]
            if zero_entries and rng.random() < 0.25:
                cand = [t for t in range(n + g) if t not in succ]
                if cand:
                    outs.append([rng.choice(cand), 0, rng.choice(rchoices)])
                    outs.sort()
            trans.append([s, a, outs])
    for s in absorbing:
        A[s] = list(range(nA)) if uniform_actions else [rng.randrange(nA)]
        for a in A[s]:
            r = 0.0
            if absorbing_reward and rng.random() < 0.3:
                r = rng.choice((-1.0, 1.0)) if not (nonpositive or gamma == 1.0) else -1.0
            if leftover_abs:
                # a table model whose absorbing flag was set on a state whose row was left in place: the declared transitions
                # of an absorbing state lead elsewhere (they are never taken - the episode has ended - and the state is worth 0)
                succ = sorted(set(rng.randrange(n + g) for _ in range(rng.randint(1, 2))))
                trans.append([s, a, [[t, p, rng.choice(rchoices)] for t, p in zip(succ, dyadic(rng, len(succ)))]])
            else:
                trans.append([s, a, [[s, 8, r]]])
    k = rng.randint(1, min(3, n + g))
    if rng.random() < 0.75:
        init_states = sorted(rng.sample(range(n), min(k, n)))
        if rng.random() < 0.25:
            init_states = sorted(set(init_states) | {rng.choice(absorbing)})
    else:
        init_states = sorted(rng.sample(range(n + g), k))
    init = [[s, p] for s, p in zip(init_states, dyadic(rng, len(init_states)))]
    spec = dict(kind=rng.choice(kinds), n=n, absorbing=absorbing, nA=nA, gamma=gamma,
                trans=trans, init=init, proper=proper)
    u = rng.random()
    if u < 0.12:
        spec['skew'] = 1 + int(u * 1000) % 3        # probabilities that are not binary fractions (see probs_of)
    return spec


def rare_catastrophe_spec(rng, kinds=KEY_KINDS):
    """A branch of probability 1e-9..1e-8 into a pit whose way out costs 1e10..1e11: ignoring the branch changes the
    optimal value by 1..100 and (for some parameters) the optimal action.  Legal for every planner that claims all finite
    MDPs.  State 0 chooses between a safe route and the gamble, optionally after a short corridor; weights stay 'eighths'
    (floats here)."""
    q = rng.choice((1e-9, 1e-9, 5e-9, 1e-8))
    K = rng.choice((1e10, 1e10, 1e11))
    safe = rng.choice((3.0, 5.0, 20.0, 200.0, 2000.0))
    gamma = rng.choice((1.0, 1.0, 0.95, 0.99))
    pre = rng.randint(0, 2)                     # corridor states before the decision state
    n = pre + 2                                 # corridor, decision state, pit
    dec, pit, goal = pre, pre + 1, pre + 2
    trans = []
    for s in range(pre):
        trans.append([s, 0, [[s + 1, 8, -1.0]]])
    order = rng.random() < 0.5
    a_safe, a_gamble = (0, 1) if order else (1, 0)
    outs = {a_safe: [[goal, 8, -safe]], a_gamble: sorted([[goal, 8 - 8 * q, -1.0], [pit, 8 * q, -1.0]])}
    for a in (0, 1):
        trans.append([dec, a, outs[a]])
    trans.append([pit, rng.randrange(2), [[goal, 8, -K]]])
    trans.append([goal, 0, [[goal, 8, 0.0]]])
    return dict(kind=rng.choice(kinds), n=n, absorbing=[goal], nA=2, gamma=gamma, trans=trans, init=[[0, 8]], proper=True)


class MDPView:
    """Lookup tables built from a spec (ids only)."""

    def __init__(self, spec):
        self.spec = spec
        self.kind = spec['kind']
        self.n = spec['n']
        self.absorbing = set(spec['absorbing'])
        self.N = spec.get('N', self.n + len(self.absorbing))
        self.gamma = spec['gamma']
        self.A = {}
        self.T = {}
        self.Tall = {}
        self.R = {}
        for s, a, outs in spec['trans']:
            self.A.setdefault(s, []).append(a)
            ps = probs_of([p for t, p, r in outs], spec.get('skew', 0))
            self.Tall[s, a] = [(t, q) for (t, p, r), q in zip(outs, ps)]
            self.T[s, a] = {t: q for (t, p, r), q in zip(outs, ps) if p > 0}
            for t, p, r in outs:
                self.R[s, a, t] = r
        self.init = dict(zip([s for s, p in spec['init']], probs_of([p for s, p in spec['init']], spec.get('skew', 0))))
        self.sk = {i: skey(self.kind, i) for i in range(self.N)}
        self.ak = {i: akey(self.kind, i) for i in range(spec['nA'])}
        self.sid = {v: k for k, v in self.sk.items()}
        self.aid = {v: k for k, v in self.ak.items()}
        self.states = list(range(self.N))

    def is_abs(self, s):
        return s in self.absorbing

    def rmin_rmax(self):
        rs = [self.R[s, a, t] for (s, a), d in self.T.items() if s not in self.absorbing for t in d]
        return min(rs), max(rs)


def make_mdp(view, ctx=None, dist=None, alias='fresh', explicit_lists=False, stored_dists=False, init_form=None):
    """Expose the spec through msdm's QuickTabularMDP.  `ctx` (optional)
    receives call-back notifications: ctx.cb(name, *ids).

    alias: what `actions(s)` hands out (user models do all three):
      'fresh'  a new list per call;
      'cached' the model's own per-state list object, the same one on every call;
      'shared' one list object for all states when the action sets are uniform
               (like QuickTabularMDP(actions=[...])), else as 'cached';
      'tuple'  a new tuple per call.
    explicit_lists: the model declares its state and action lists itself (every
    state of the spec, reachable from the initial states or not) instead of
    letting msdm infer them by reachability.  True/'id' = id order, 'swap' = two
    middle states swapped, 'reversed', or a list of state ids.
    stored_dists: the model keeps ONE DictDistribution object per (state, action)
    and hands that object out on every call (see update_model_in_place)."""
    from msdm.core.mdp import QuickTabularMDP
    from msdm.core.distributions import DictDistribution, DeterministicDistribution, UniformDistribution
    sk, ak, sid, aid = view.sk, view.ak, view.sid, view.aid

    def cb(*a):
        if ctx is not None:
            ctx.cb(*a)

    store = {}
    holder = dict(view=view)      # the table the probabilities are read from (update_model_in_place swaps it)

    if dist is None:
        # a quarter of the models write their distributions with distribution arithmetic (a pure function of the spec)
        dist = ('mixture', 'dict', 'classes', 'dict')[(view.n + 3 * len(view.spec['trans'])) % 4]

    def build(pairs):
        """the distribution object for [(key, probability)]: a dict literal, or (dist='mixture') the way users write noisy
        transitions, point masses scaled and mixed with `|` - same events, same probabilities (1.0 * p is exact)"""
        if dist == 'mixture' and len(pairs) > 1:
            d = None
            for k, p in pairs:
                part = DictDistribution({k: 1.0}) * p
                d = part if d is None else (d | part)
            return d
        if dist == 'classes':
            # the other distribution classes a model function may return: a point mass, a uniform distribution
            if len(pairs) == 1 and pairs[0][1] == 1.0:
                return DeterministicDistribution(pairs[0][0])
            if len({p for k, p in pairs}) == 1 and len(pairs) * pairs[0][1] == 1.0:
                return UniformDistribution([k for k, p in pairs])
        return DictDistribution(dict(pairs))

    flip = (view.n + len(view.spec['trans'])) % 2 == 1     # half of the models list the outcomes of a distribution in descending id order (absorbing states first)

    def next_state_dist(s, a):
        si, ai = sid[s], aid[a]
        cb('next_state_dist', si, ai)
        if flip and not stored_dists:
            return build([(sk[t], p) for t, p in reversed(holder['view'].Tall[si, ai])])
        if stored_dists:
            if (si, ai) not in store:
                store[si, ai] = DictDistribution({sk[t]: p for t, p in holder['view'].Tall[si, ai]})
            return store[si, ai]
        return build([(sk[t], p) for t, p in holder['view'].Tall[si, ai]])

    import numpy as _np
    rtype = (float, _np.float64, float)[(view.n + view.spec['nA']) % 3]      # models written with numpy hand back numpy scalars
    if (view.n + 2 * view.spec['nA'] + len(view.spec['trans'])) % 3 == 0 and all(float(r).is_integer() and abs(r) < 2 ** 53 for r in view.R.values()):
        rtype = int                 # ... and models with step costs of -1 hand back Python ints

    def reward(s, a, ns):
        cb('reward', sid[s], aid[a], sid[ns])
        return rtype(view.R[sid[s], aid[a], sid[ns]])

    own_lists = {}
    uniform = len({tuple(view.A[s]) for s in view.A}) == 1

    def actions(s):
        cb('actions', sid[s])
        if alias == 'fresh':
            return [ak[a] for a in view.A[sid[s]]]
        if alias == 'tuple':
            return tuple(ak[a] for a in view.A[sid[s]])
        key = 'all' if (alias == 'shared' and uniform) else sid[s]
        if key not in own_lists:
            own_lists[key] = [ak[a] for a in view.A[sid[s]]]
        return own_lists[key]

    def initial_state_dist():
        cb('initial_state_dist')
        return build([(sk[s], p) for s, p in view.init.items()])

    btype = (bool, _np.bool_, bool, int)[(view.n + 5 * view.spec['nA']) % 4]      # models that keep their flags in a numpy mask hand back numpy.bool_ (or 1)

    def is_absorbing(s):
        cb('is_absorbing', sid[s])
        return btype(sid[s] in view.absorbing)

    # the three ways QuickTabularMDP accepts the initial states (user models use all of them); which one is a pure
    # function of the spec: a call-back, a distribution object, or - for a single initial state - initial_state=<key>
    form = init_form if init_form is not None else (view.n * 7 + view.spec['nA'] * 3 + len(view.spec['trans'])) % 3
    if form == 2 and len(view.init) == 1:
        init_kw = dict(initial_state=sk[next(iter(view.init))])
    elif form >= 1:
        init_kw = dict(initial_state_dist=build([(sk[s], p) for s, p in view.init.items()]))
    else:
        init_kw = dict(initial_state_dist=initial_state_dist)
    m = QuickTabularMDP(next_state_dist=next_state_dist, reward=reward, actions=actions,
                        is_absorbing=is_absorbing, discount_rate=view.gamma, **init_kw)
    if 'initial_state' in init_kw or not callable(init_kw.get('initial_state_dist')):
        # whatever QuickMDP's constructor made of the argument stays in charge; the call-back seam is told about the call
        made = m._initial_state_dist

        def told():
            cb('initial_state_dist')
            return made()
        m._initial_state_dist = told
    if explicit_lists:
        order = list(range(view.N))
        if explicit_lists == 'swap' and view.N >= 4:
            order[1], order[2] = order[2], order[1]
        elif explicit_lists == 'reversed':
            order.reverse()
        elif isinstance(explicit_lists, (list, tuple)):
            order = list(explicit_lists)
        m._state_list = [sk[i] for i in order]
        m._action_list = [ak[i] for i in range(view.spec['nA'])]
    m._verif_store = store
    m._verif_holder = holder
    return m


def rotated_probability_spec(spec):
    """A sibling with the same states, actions, listed successors and rewards but with the probabilities of each
    (state, action) rotated among its listed successors (zero entries included), for "model updated in place"."""
    import copy
    sp = copy.deepcopy(spec)
    for tr in sp['trans']:
        outs = tr[2]
        if len(outs) > 1:
            ps = [o[1] for o in outs]
            ps = ps[1:] + ps[:1]
            for o, p in zip(outs, ps):
                o[1] = p
    return sp


def update_model_in_place(mdp, new_view):
    """Fault F9 for models: the stored distribution objects get the probabilities of `new_view` (same keys)."""
    sk = new_view.sk
    for (s, a), d in mdp._verif_store.items():
        for t, p in new_view.Tall[s, a]:
            d[sk[t]] = p
    mdp._verif_holder['view'] = new_view


# ------------------------------------------------------------------ POMDP spec
def gen_pomdp_spec(rng, kinds=KEY_KINDS, discounts=(0.5, 0.8, 0.9, 0.95), max_abs=1):
    nS = rng.randint(2, 4)
    nA = rng.randint(1, 3)
    nO = rng.randint(1, 3)
    nabs = rng.randint(0, min(max_abs, nS - 1))
    absorbing = sorted(rng.sample(range(nS), nabs))
    trans = []
    for s in range(nS):
        for a in range(nA):
            if s in absorbing:
                r = rng.choice((0.0, 0.0, 1.0, -1.0))
                trans.append([s, a, [[s, 8, r]]])
                continue
            succ = sorted(rng.sample(range(nS), rng.randint(1, min(3, nS))))
            ps = dyadic(rng, len(succ))
            trans.append([s, a, [[t, p, float(rng.choice((-2, -1, 0, 1, 3)))] for t, p in zip(succ, ps)]])
    obs = []
    used = set()
    for a in range(nA):
        for t in range(nS):
            oo = sorted(rng.sample(range(nO), rng.randint(1, nO)))
            used.update(oo)
            obs.append([a, t, [[o, p] for o, p in zip(oo, dyadic(rng, len(oo)))]])
    # make sure every observation id is emitted somewhere (msdm infers the list)
    missing = [o for o in range(nO) if o not in used]
    if missing:
        obs[0][2] = [[o, p] for o, p in zip(range(nO), dyadic(rng, nO))]
    k = rng.randint(1, min(2, nS))
    init_states = sorted(rng.sample(range(nS), k))
    init = [[s, p] for s, p in zip(init_states, dyadic(rng, k))]
    spec = dict(kind=rng.choice(kinds), nS=nS, nA=nA, nO=nO, absorbing=absorbing, trans=trans,
                obs=obs, init=init, gamma=rng.choice(discounts))
    u = rng.random()
    if u < 0.12:
        spec['skew'] = 1 + int(u * 1000) % 3
    return spec


class POMDPView:
    def __init__(self, spec):
        self.spec = spec
        self.kind = spec['kind']
        self.nS, self.nA, self.nO = spec['nS'], spec['nA'], spec['nO']
        self.absorbing = set(spec['absorbing'])
        self.gamma = spec['gamma']
        self.T = {}
        self.R = {}
        for s, a, outs in spec['trans']:
            ps = probs_of([p for t, p, r in outs], spec.get('skew', 0))
            self.T[s, a] = {t: q for (t, p, r), q in zip(outs, ps) if p > 0}
            for t, p, r in outs:
                self.R[s, a, t] = r
        self.Ob = {}
        for a, t, outs in spec['obs']:
            ps = probs_of([p for o, p in outs], spec.get('skew', 0))
            self.Ob[a, t] = {o: q for (o, p), q in zip(outs, ps) if p > 0}
        self.init = dict(zip([s for s, p in spec['init']], probs_of([p for s, p in spec['init']], spec.get('skew', 0))))
        self.sk = {i: skey(self.kind, i) for i in range(self.nS)}
        self.ak = {i: akey(self.kind, i) for i in range(self.nA)}
        self.ok = {i: okey(self.kind, i) for i in range(self.nO)}
        self.sid = {v: k for k, v in self.sk.items()}
        self.aid = {v: k for k, v in self.ak.items()}
        self.oid = {v: k for k, v in self.ok.items()}

    def reachable(self):
        seen = set(self.init)
        fr = list(seen)
        while fr:
            s = fr.pop()
            for a in range(self.nA):
                for t in self.T[s, a]:
                    if t not in seen:
                        seen.add(t)
                        fr.append(t)
        return seen


def make_pomdp(view, ctx=None):
    from msdm.core.pomdp import TabularPOMDP
    from msdm.core.distributions import DictDistribution
    import numpy as _np
    btype = (bool, _np.bool_, bool, int)[(view.nS + 3 * view.nA + view.nO) % 4]      # models that keep their flags in a numpy mask hand back numpy.bool_ (or 1)
    sk, ak, ok, sid, aid = view.sk, view.ak, view.ok, view.sid, view.aid

    def cb(*a):
        if ctx is not None:
            ctx.cb(*a)

    class SpecPOMDP(TabularPOMDP):
        discount_rate = view.gamma

        def next_state_dist(self, s, a):
            cb('next_state_dist', sid[s], aid[a])
            return DictDistribution({sk[t]: p for t, p in view.T[sid[s], aid[a]].items()})

        def reward(self, s, a, ns):
            cb('reward', sid[s], aid[a], sid[ns])
            return view.R[sid[s], aid[a], sid[ns]]

        def actions(self, s):
            cb('actions', sid[s])
            return [ak[a] for a in range(view.nA)]

        def initial_state_dist(self):
            cb('initial_state_dist')
            return DictDistribution({sk[s]: p for s, p in view.init.items()})

        def is_absorbing(self, s):
            cb('is_absorbing', sid[s])
            return btype(sid[s] in view.absorbing)

        def observation_dist(self, a, ns):
            cb('observation_dist', aid[a], sid[ns])
            return DictDistribution({ok[o]: p for o, p in view.Ob[aid[a], sid[ns]].items()})

    p = SpecPOMDP()
    # explicit lists in id order so that indices are the spec's ids
    p._state_list = [sk[i] for i in range(view.nS)]
    p._action_list = [ak[i] for i in range(view.nA)]
    return p


# ------------------------------------------------------------------ graph spec
def gen_graph_spec(rng, kinds=KEY_KINDS, max_states=8, big=False, corridor=False):
    if corridor:
        # a long corridor: the only route to the goal has more than a thousand steps (plus self-loops, zero-cost back edges
        # and a few dead-end side branches)
        n = rng.randint(1050, 1400)
        edges = []
        for s in range(n - 1):
            edges.append([s, 0, s + 1, rng.choice((1, 1, 2))])
            if rng.random() < 0.1:
                edges.append([s, 1, max(0, s - rng.randint(1, 5)), 0])
            elif rng.random() < 0.1:
                edges.append([s, 1, s, 1])
        edges.append([n - 1, 0, n - 1, 0])
        return dict(kind=rng.choice(kinds), n=n, nA=2, goals=[n - 1], edges=edges, src=0)
    if big:
        # larger, denser graphs with a wider cost range: many queued nodes get revised by cheaper routes
        n = rng.randint(15, 60)
        nA = rng.randint(4, 6)
        costs = (0, 1, 2, 3, 4, 5, 6, 7, 8, 9)
        if rng.random() < 0.25:
            costs = costs + (10 ** 6, 10 ** 6 + 3)     # toll edges: a saving of 1 is then 1e-6 of the cost so far
    else:
        n = rng.randint(1, max_states)
        nA = rng.randint(1, 3)
        costs = (0, 1, 1, 2, 3)
    goals = sorted(rng.sample(range(n), rng.randint(0, min(2, n))))
    edges = []
    for s in range(n):
        for a in sorted(rng.sample(range(nA), rng.randint(1 if not big else 3, nA))):
            edges.append([s, a, rng.randrange(n), rng.choice(costs)])
    spec = dict(kind=rng.choice(kinds), n=n, nA=nA, goals=goals, edges=edges, src=rng.randrange(n))
    if rng.random() < 0.06:
        spec['listact'] = True        # (used with the non-tabular 'dsp' representation) actions are unhashable [label, id] lists
    if rng.random() < 0.2:
        spec['bare_goals'] = True     # absorbing states offer no action at all (their edges in the spec are never offered)
    u = rng.random()
    if u < 0.5:
        spec['intcost'] = True        # the model's reward function returns Python ints (-1), not floats (-1.0)
        if u < 0.03:
            # every edge out of the source costs 2**53 more: path costs are then exact only in integer arithmetic
            # (in doubles 2**53 + 1 == 2**53), and routes differ by 1 in 9e15
            for e in edges:
                if e[0] == spec['src']:
                    e[3] += 2 ** 53
            spec['giant'] = True
    return spec


class GraphView:
    def __init__(self, spec):
        self.spec = spec
        self.kind = spec['kind']
        self.n = spec['n']
        self.goals = set(spec['goals'])
        self.E = {(s, a): (t, w) for s, a, t, w in spec['edges']}
        self.A = {}
        for s, a, t, w in spec['edges']:
            self.A.setdefault(s, []).append(a)
        self.src = spec['src']
        self.sk = {i: skey(self.kind, i) for i in range(self.n)}
        self.ak = {i: akey(self.kind, i) for i in range(spec['nA'])}
        self.sid = {v: k for k, v in self.sk.items()}
        self.aid = {v: k for k, v in self.ak.items()}


def make_graph_mdp(view, rep):
    """rep in {'next_state','det','dict','uniform','dsp'}"""
    from msdm.core.mdp import QuickTabularMDP
    from msdm.core.distributions import DictDistribution, UniformDistribution, DeterministicDistribution
    sk, ak, sid, aid, E = view.sk, view.ak, view.sid, view.aid, view.E
    num = int if view.spec.get('intcost') else float
    kw = dict(reward=lambda s, a, ns: -num(E[sid[s], aid[a]][1]),
              actions=lambda s: [] if (view.spec.get('bare_goals') and sid[s] in view.goals) else [ak[a] for a in view.A.get(sid[s], [])],
              is_absorbing=lambda s: sid[s] in view.goals)
    nxt = lambda s, a: sk[E[sid[s], aid[a]][0]]
    src = sk[view.src]
    if rep == 'next_state':
        return QuickTabularMDP(next_state=nxt, initial_state=src, **kw)
    if rep == 'det':
        return QuickTabularMDP(next_state_dist=lambda s, a: DeterministicDistribution(nxt(s, a)),
                               initial_state_dist=DeterministicDistribution(src), **kw)
    if rep == 'dict':
        return QuickTabularMDP(next_state_dist=lambda s, a: DictDistribution({nxt(s, a): 1.0}),
                               initial_state_dist=DictDistribution({src: 1.0}), **kw)
    if rep == 'parallel':
        # a model written with parallel lists: per state the list of actions (the model's OWN list object, handed out on every
        # call) and, index by index, the list of targets and costs; the transition looks the action up in that list
        acts = {s_: [ak[a] for a in view.A.get(s_, [])] for s_ in range(view.n)}
        tgts = {s_: [sk[E[s_, a][0]] for a in view.A.get(s_, [])] for s_ in range(view.n)}
        csts = {s_: [E[s_, a][1] for a in view.A.get(s_, [])] for s_ in range(view.n)}
        bare = view.spec.get('bare_goals')
        return QuickTabularMDP(next_state=lambda s, a: tgts[sid[s]][acts[sid[s]].index(a)], initial_state=src,
                               reward=lambda s, a, ns: -num(csts[sid[s]][acts[sid[s]].index(a)]),
                               actions=lambda s: [] if (bare and sid[s] in view.goals) else acts[sid[s]],
                               is_absorbing=kw['is_absorbing'])
    if rep == 'dict_ulp':
        # a single outcome whose probability was summed from parts: 1 only up to rounding (0.7 + 0.2 + 0.1)
        one = 0.7 + 0.2 + 0.1
        return QuickTabularMDP(next_state_dist=lambda s, a: DictDistribution({nxt(s, a): one}),
                               initial_state_dist=DictDistribution({src: one}), **kw)
    if rep == 'uniform':
        return QuickTabularMDP(next_state_dist=lambda s, a: UniformDistribution([nxt(s, a)]),
                               initial_state_dist=UniformDistribution([src]), **kw)
    if rep == 'dsp':
        from msdm.core.mdp.deterministic_shortest_path import DeterministicShortestPathProblem

        if view.spec.get('listact'):
            # a problem class of the user's own, outside the tabular classes: nothing requires its actions to be hashable
            bare = view.spec.get('bare_goals')

            class GL(DeterministicShortestPathProblem):
                def next_state(self, s, a):
                    return sk[E[sid[s], a[1]][0]]

                def initial_state(self):
                    return src

                def reward(self, s, a, ns):
                    return -num(E[sid[s], a[1]][1])

                def actions(self, s):
                    return [] if (bare and sid[s] in view.goals) else [['act', a] for a in view.A.get(sid[s], [])]

                def is_absorbing(self, s):
                    return sid[s] in view.goals
            return GL()

        class G(DeterministicShortestPathProblem):
            def next_state(self, s, a):
                return nxt(s, a)

            def initial_state(self):
                return src

            def reward(self, s, a, ns):
                return kw['reward'](s, a, ns)

            def actions(self, s):
                return kw['actions'](s)

            def is_absorbing(self, s):
                return kw['is_absorbing'](s)
        return G()
    raise HarnessError(rep)


def sibling_mdp_spec(spec, rng_int):
    """Fault F5 (object reuse): a sibling problem with the same state and action keys.
    Depending on rng_int it has one more absorbing state ("the goal moved"), another
    discount rate, or both; proper-ness is preserved.  Returns None when every state is
    already absorbing and the discount cannot be changed."""
    import copy
    absb = set(spec['absorbing'])
    N = spec.get('N', spec['n'] + len(spec['absorbing']))
    cand = [s for s in range(N) if s not in absb]
    mode = (rng_int // 2) % 3          # (rng_int % 2 selects sibling vs aborted rerun in the checks)
    sp = copy.deepcopy(spec)
    sp['N'] = N
    changed = False
    if mode in (0, 2) and cand:
        x = cand[rng_int % len(cand)]
        sp['absorbing'] = sorted(absb | {x})
        # like every absorbing state of the generated workloads, x only loops on itself
        # (msdm's matrix views index the successors of absorbing states too)
        for tr in sp['trans']:
            if tr[0] == x:
                tr[2] = [[x, 8, 0.0]]
        changed = True
    if mode in (1, 2) or not changed:
        others = [g for g in (0.5, 0.8, 0.9, 0.95) if g != spec['gamma']]
        sp['gamma'] = others[rng_int % len(others)]
        changed = True
    return sp


def nested_variant_spec(spec, rng_int):
    """The problem a nested or overlapping run (fault F10) works on: same state and action keys as `spec`, but a different
    model - the sibling of `sibling_mdp_spec` (another absorbing set and/or discount) with the positive probabilities of
    every (state, action) rotated among its positive-probability successors (the support, hence proper-ness, is kept) and
    every reward r replaced by r/2 - 1/4.  Anything one run leaks into the other is then wrong for the other."""
    import copy
    sp = sibling_mdp_spec(spec, rng_int) or copy.deepcopy(spec)
    absb = set(sp['absorbing'])
    for tr in sp['trans']:
        if tr[0] in absb:
            continue
        outs = tr[2]
        pos = [o for o in outs if o[1] > 0]
        if len(pos) > 1:
            ps = [o[1] for o in pos]
            ps = ps[1:] + ps[:1]
            for o, p in zip(pos, ps):
                o[1] = p
        for o in outs:
            o[2] = o[2] * 0.5 - 0.25
    return sp


def nested_graph_variant(spec, k):
    """The graph a nested search (fault F10) works on: same state and action keys, every edge re-targeted and one dearer,
    other goals."""
    import copy
    sp = copy.deepcopy(spec)
    n = sp['n']
    for e in sp['edges']:
        e[2] = (e[2] + 1 + k) % n
        e[3] = (e[3] % 10) + 1
    sp['goals'] = sorted({(g + 1 + k) % n for g in sp['goals']} or {k % n})
    sp.pop('giant', None)
    return sp


def nested_pomdp_variant(spec, k):
    """The POMDP a nested / overlapping run (fault F10) works on: same state, action and observation keys, positive
    transition and observation probabilities rotated within their supports, rewards r/2 - 1/4, another discount."""
    import copy
    sp = copy.deepcopy(spec)
    for tr in sp['trans']:
        pos = [o for o in tr[2] if o[1] > 0]
        if len(pos) > 1:
            ps = [o[1] for o in pos]
            ps = ps[1:] + ps[:1]
            for o, p in zip(pos, ps):
                o[1] = p
        for o in tr[2]:
            o[2] = o[2] * 0.5 - 0.25
    for ob in sp['obs']:
        pos = [o for o in ob[2] if o[1] > 0]
        if len(pos) > 1:
            ps = [o[1] for o in pos]
            ps = ps[1:] + ps[:1]
            for o, p in zip(pos, ps):
                o[1] = p
    others = [g for g in (0.5, 0.8, 0.9, 0.95) if g != sp['gamma']]
    sp['gamma'] = others[k % len(others)]
    return sp


SWEEP_ATTRS = ('state_list', 'action_list', 'observation_list', 'transition_matrix', 'action_matrix', 'reward_matrix',
               'state_action_reward_matrix', 'observation_matrix', 'initial_state_vec', 'absorbing_state_vec')


def interrupted_first_sweep(model, ctx, k):
    """Fault F6 at model construction: the library's first sweeps over a FRESH tabular model object (its state list by
    reachability, its matrices) die at the k-th model call-back - the user's model function raises once - and the same
    object is used afterwards.  Returns True when the abort was delivered."""
    from .core import InjectedAbort
    hook = ctx.abort_after(k)
    delivered = False
    for a in SWEEP_ATTRS:
        if not hasattr(type(model), a):
            continue
        try:
            getattr(model, a)
        except InjectedAbort:
            delivered = True
            break
    ctx.disarm(hook)
    return delivered


def sym_pomdp_spec(rng, kinds=KEY_KINDS):
    """A symmetric two-door problem (Tiger-like): listening (action 0) keeps the state and reports it correctly with
    probability 5/8, opening a door (actions 1, 2) resets the state uniformly.  With the value-based policy of
    `sym_qmdp_table` the listen/open boundary lies EXACTLY on the belief 25/34 reached after two more observations of one
    kind than of the other, and different observation histories reach that belief with different last bits - the greedy
    action set there is decided by rounding."""
    trans, obs = [], []
    for s in (0, 1):
        trans.append([s, 0, [[s, 8, -1.0]]])
        for a in (1, 2):
            r = -29.0 if a - 1 == s else 10.0
            trans.append([s, a, [[0, 4, r], [1, 4, r]]])
    for t in (0, 1):
        obs.append([0, t, [[t, 5], [1 - t, 3]]] if t == 0 else [0, t, [[0, 3], [1, 5]]])
        for a in (1, 2):
            obs.append([a, t, [[0, 4], [1, 4]]])
    return dict(kind=rng.choice(kinds), nS=2, nA=3, nO=2, absorbing=[], trans=trans, obs=obs, init=[[0, 4], [1, 4]],
                gamma=0.95, symmetric=True)


def sym_qmdp_table():
    # value(open door d | belief b that the tiger is behind d) = -34 b, value(listen) = -9: listening is better at b = 1/2,
    # tie at b = 9/34, i.e. when the other state has belief 25/34
    return [[-9.0, -34.0, 0.0], [-9.0, 0.0, -34.0]]

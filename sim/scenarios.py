"""C13 scenarios: every seeded component of msdm on representative problems.

A scenario is a JSON-able dict {component, problem, params, seed}.  `run_scenario`
builds fresh objects (unless told to reuse) and returns the canonical result.
"""
import random as _pyrandom
import numpy as np

from .core import InjectedAbort, FaithfulRandom
from .models import (sym_pomdp_spec, sym_qmdp_table, nested_variant_spec, gen_mdp_spec, gen_graph_spec, gen_pomdp_spec, MDPView, GraphView, POMDPView,
                     make_mdp, make_graph_mdp, make_pomdp, dyadic)
from .ctx import canon

COMPONENTS = ('laostar', 'lrtdp', 'astar', 'bfs', 'qlearning', 'sarsa', 'expectedsarsa', 'doubleq', 'rmax', 'bpi', 'ga',
              'semimdp', 'implicit', 'rollout_mdp', 'evaluate_mdp', 'rollout_pomdp')
MDP_DOMAINS = ('GridWorld', 'GridWorldCost', 'WindyGridWorld', 'CliffWalking')
POMDP_DOMAINS = ('Tiger', 'LoadUnload', 'HeavenOrHell')
SEEDS = (0, 0, 1, 3, 42, 12345, 2 ** 31 + 7)
STEP_CAP = 3000


class ScenarioCap(Exception):
    """a learner's episode did not end within STEP_CAP steps (the scenario's result is then this exception, in every environment)"""


def gen_scenario(rng, component=None, kinds=('int', 'str', 'str', 'tuple', 'fd')):
    comp = component or rng.choice(COMPONENTS)
    seed = rng.choice(SEEDS)
    params = {}
    if comp in ('astar', 'bfs'):
        if rng.random() < 0.25:
            problem = dict(type='domain', name='GridWorldDet')
        else:
            problem = dict(type='graph', spec=gen_graph_spec(rng, kinds=kinds), rep=rng.choice(('next_state', 'det', 'uniform', 'dsp')))
        params = dict(tie=rng.choice(('random', 'random', 'lifo')), rao=True)
        if comp == 'astar' and params['tie'] == 'random' and rng.random() < 0.4:
            params['rao'] = False       # the seed then only serves the random tie-breaking
    elif comp in ('bpi', 'ga', 'rollout_pomdp'):
        if rng.random() < 0.35:
            problem = dict(type='domain', name=rng.choice(POMDP_DOMAINS))
        else:
            problem = dict(type='pomdp', spec=gen_pomdp_spec(rng, kinds=kinds))
        if comp == 'bpi':
            params = dict(nodes=rng.randint(1, 2), iterations=rng.randint(1, 4))
        elif comp == 'ga':
            params = dict(nodes=rng.randint(1, 2), iterations=rng.randint(1, 3))
        else:
            params = dict(policy=rng.choice(('fsc', 'fsc', 'alpha', 'qmdp')), cap=rng.choice((3, 6, 10)), pseed=rng.randrange(10 ** 6),
                          start=rng.choice((None, None, 'first')))
            if rng.random() < 0.4:
                # the symmetric two-door problem, on which a value-based policy's greedy set is decided by the last bits of the belief
                problem = dict(type='pomdp', spec=sym_pomdp_spec(rng, kinds=kinds))
                params.update(policy='qmdp_sym', cap=rng.choice((12, 16, 24)), start=None)
    elif comp == 'implicit':
        problem = dict(type='none')
        params = dict(n=rng.choice((5, 20)), p=rng.choice((0.3, 0.5)),
                      ops=[rng.choice(('items', 'expectation', 'sample', 'marginalize', 'condition', 'ext', 'ext_condition', 'ext_marginalize')) for _ in range(rng.randint(1, 4))])
    else:
        if rng.random() < 0.3 and comp not in ('semimdp',):
            name = rng.choice(MDP_DOMAINS)
            if comp == 'rmax':
                name = 'GridWorld'
            problem = dict(type='domain', name=name)
        else:
            uniform = comp == 'rmax'
            spec = gen_mdp_spec(rng, proper=True, uniform_actions=uniform, discounts=(0.5, 0.8, 0.9, 0.95), max_states=5,
                                kinds=kinds)
            problem = dict(type='mdp', spec=spec)
            if rng.random() < 0.4:
                problem['dist'] = 'mixture'      # transition distributions written as scaled point masses mixed with `|`
            if rng.random() < 0.5:
                problem['alias'] = rng.choice(('cached', 'shared', 'tuple'))     # what the model's actions() hands out (see make_mdp)
        if comp in ('qlearning', 'sarsa', 'expectedsarsa', 'doubleq'):
            params = dict(episodes=rng.randint(1, 4), rand_choose=rng.choice((0.1, 0.5)), step_size=0.5, softmax_temp=rng.choice((0.0, 1.0)))
        elif comp == 'rmax':
            params = dict(episodes=rng.randint(1, 4), m=rng.randint(1, 3))
        elif comp == 'lrtdp':
            params = dict(rao=True, eps=1e-2, h=_upper_bound(problem))
        elif comp == 'laostar':
            params = dict(rao=rng.random() < 0.8, rno=True, h=_upper_bound(problem))
        elif comp == 'semimdp':
            params = dict(nsim=rng.choice((2, 5)), optname=rng.choice(('o', 'go-left', 'opt_7')), max_steps=rng.choice((5, 50)), pseed=rng.randrange(10 ** 6),
                          planned=rng.random() < 0.5)
            params['mix'] = rng.random() < 0.4
            params['planner'] = rng.choice(('vi', 'lao', 'lrtdp', 'lao'))       # what plans a planned option's sub-task
        elif comp in ('rollout_mdp', 'evaluate_mdp'):
            params = dict(cap=rng.choice((5, 20)), nsim=rng.choice((2, 4)), pseed=rng.randrange(10 ** 6), tabular=rng.random() < 0.5)
            params['mix'] = rng.random() < 0.4
    return dict(component=comp, problem=problem, params=params, seed=seed)


def _upper_bound(problem):
    """a constant admissible heuristic value for LAO*/LRTDP scenarios"""
    if problem['type'] == 'domain':
        return {'GridWorld': 10.0}.get(problem['name'], 0.0)
    v = MDPView(problem['spec'])
    rmin, rmax = v.rmin_rmax()
    return max(0.0, rmax) / (1 - v.gamma)


# ------------------------------------------------------------------ problems
def hook_instance(obj, ctx, names=('next_state_dist', 'reward', 'actions', 'initial_state_dist', 'is_absorbing', 'observation_dist')):
    """Route an msdm domain object's model functions through the call-back seam."""
    if ctx is None:
        return obj
    base = obj.__class__
    ns = {}
    for n in names:
        if hasattr(base, n):
            def mk(n):
                def f(self, *a, **k):
                    ctx.cb(n)
                    return getattr(base, n)(self, *a, **k)
                return f
            ns[n] = mk(n)
    obj.__class__ = type('Hooked' + base.__name__, (base,), ns)
    return obj


def build_domain(name, ctx=None):
    if name == 'GridWorld':
        from msdm.domains import GridWorld
        d = GridWorld(tile_array=["s..", "..g"], feature_rewards={'g': 1}, step_cost=0, success_prob=.8, discount_rate=.9)
    elif name == 'GridWorldCost':
        from msdm.domains import GridWorld
        d = GridWorld(tile_array=["s..", ".#.", "..g"], step_cost=-1, success_prob=.8, discount_rate=.95)
    elif name == 'GridWorldDet':
        from msdm.domains import GridWorld
        d = GridWorld(tile_array=["s..", "...", "..g"], step_cost=-1, success_prob=1.0, discount_rate=1.0)
    elif name == 'WindyGridWorld':
        from msdm.domains.gridmdp.windygridworld import WindyGridWorld
        d = WindyGridWorld(grid="""
            .>.$
            @..#
            """, feature_rewards={'$': 0.0}, wind_probability=.5, discount_rate=.9)
    elif name == 'CliffWalking':
        from msdm.domains.cliffwalking import CliffWalking
        d = CliffWalking()
    elif name == 'Tiger':
        from msdm.domains.tiger import Tiger
        d = Tiger(coherence=.85, discount_rate=.8)
    elif name == 'LoadUnload':
        from msdm.domains.loadunload import LoadUnload
        d = LoadUnload(nstates=4, discount_rate=.9)
    elif name == 'HeavenOrHell':
        from msdm.domains.heavenorhell import HeavenOrHell
        d = HeavenOrHell(coherence=.9, discount_rate=.9, grid="""
            hcg
            #.#
            #s#
            """)
    else:
        raise ValueError(name)
    return hook_instance(d, ctx)


def build_problem(problem, ctx=None):
    t = problem['type']
    if t == 'mdp':
        return make_mdp(MDPView(problem['spec']), ctx, dist=problem.get('dist', 'dict'), alias=problem.get('alias', 'fresh'))
    if t == 'graph':
        return make_graph_mdp(GraphView(problem['spec']), problem['rep'])
    if t == 'pomdp':
        return make_pomdp(POMDPView(problem['spec']), ctx)
    if t == 'domain':
        return build_domain(problem['name'], ctx)
    return None


def other_problem(sc):
    """A different (differently sized) problem of the same class, for object reuse."""
    r = _pyrandom.Random('other:' + sc['component'])
    comp = sc['component']
    if comp in ('astar', 'bfs'):
        return dict(type='graph', spec=gen_graph_spec(r), rep='next_state')
    if comp in ('bpi', 'ga', 'rollout_pomdp'):
        return dict(type='pomdp', spec=gen_pomdp_spec(r, kinds=('int',)))
    return dict(type='mdp', spec=gen_mdp_spec(r, proper=True, uniform_actions=(comp == 'rmax'), discounts=(0.9,), max_states=6, min_states=6, kinds=('int',)))


# ---------------------------------------------------------------- components
class Env:
    """What a scenario execution may be perturbed by."""

    def __init__(self, ctx=None, rng_factory=None, reuse=False, warm=False, listener_cb=None, share=False):
        self.share = share        # option / policy objects are first used on ANOTHER model with the same keys (two live users of one object)
        self.ctx = ctx
        self.rng_factory = rng_factory or (lambda seed: _pyrandom.Random(seed))
        self.reuse = reuse
        self.warm = warm
        self.listener_cb = listener_cb or (lambda: None)


def _policy_table(policy, states):
    out = []
    for s in states:
        try:
            d = policy.action_dist(s)
            out.append([canon(s), sorted(([canon(a), float(p)] for a, p in d.items() if p > 0), key=lambda x: str(x[0]))])
        except Exception as e:
            out.append([canon(s), 'undefined:' + type(e).__name__])
    return out


def _states(problem):
    return list(problem.state_list)


def _rand_policy(problem, pseed, tabular=False, mix=False):
    from msdm.core.mdp import FunctionalPolicy
    from msdm.core.distributions import DictDistribution
    r = _pyrandom.Random(pseed)
    tab = {}

    def f(s):
        if s not in tab:
            acts = list(problem.actions(s))
            k = len(acts)
            w = [r.randint(1, 4) for _ in range(k)]
            if mix and k > 1:
                # an epsilon-soft style policy written with distribution arithmetic: greedy * (1 - e) | uniform * e
                e = r.choice((0.1, 0.25, 0.5))
                tab[s] = DictDistribution({acts[w.index(max(w))]: 1.0}) * (1 - e) | DictDistribution.uniform(acts) * e
            else:
                tab[s] = DictDistribution({a: x / sum(w) for a, x in zip(acts, w)})
        return tab[s]
    # tabulate in a canonical order so the table does not depend on visit order
    for s in sorted(problem.state_list, key=lambda x: str(canon(x))):
        f(s)
    pol = FunctionalPolicy(f)
    if tabular:
        # the same policy as a TabularPolicy over the model's own state and action lists
        pol = pol.to_tabular(problem.state_list, problem.action_list)
    return pol


def make_algo(sc, env):
    comp, p, seed = sc['component'], sc['params'], sc['seed']
    cb = env.listener_cb
    if comp == 'laostar':
        import msdm.algorithms.laostar as m

        class L(m.LAOStarEventListener):
            def main_lao_star_loop(self, lv):
                cb()
        return m.LAOStar(heuristic=lambda s: p['h'], seed=seed, randomize_action_order=p['rao'], randomize_nextstate_order=p['rno'],
                         event_listener_class=L, max_lao_star_iterations=5000)
    if comp == 'lrtdp':
        import msdm.algorithms.lrtdp as m

        class L(m.LRTDPEventListener):
            def end_of_lrtdp_timestep(self, lv):
                cb()

            def end_of_lrtdp_trial(self, lv):
                cb()
        return m.LRTDP(heuristic=lambda s: p['h'], seed=seed, randomize_action_order=p['rao'], bellman_error_margin=p['eps'], event_listener_class=L,
                       iterations=3000)        # a run that stops converging shows as a different result, not as a hang
    if comp == 'astar':
        import msdm.algorithms.search as m
        return m.AStarSearch(seed=seed, tie_breaking_strategy=p['tie'], randomize_action_order=p['rao'])
    if comp == 'bfs':
        import msdm.algorithms.search as m
        return m.BreadthFirstSearch(seed=seed, randomize_action_order=True)
    if comp in ('qlearning', 'sarsa', 'expectedsarsa', 'doubleq'):
        import msdm.algorithms.tdlearning as m
        cls = dict(qlearning=m.QLearning, sarsa=m.SARSA, expectedsarsa=m.ExpectedSARSA, doubleq=m.DoubleQLearning)[comp]

        class L(m.TDLearningEventListener):
            def __init__(self):
                self.trace = []

            def end_of_timestep(self, lv):
                self.trace.append([canon(lv['s']), canon(lv['a']), float(lv['r']), canon(lv['ns'])])
                if len(self.trace) > STEP_CAP:
                    raise ScenarioCap(f"more than {STEP_CAP} steps")
                cb()

            def end_of_episode(self, lv):
                self.trace.append('end')
                cb()

            def results(self):
                return self.trace
        return cls(episodes=p['episodes'], step_size=p['step_size'], rand_choose=p['rand_choose'], softmax_temp=p['softmax_temp'], seed=seed,
                   event_listener_class=L)
    if comp == 'rmax':
        import msdm.algorithms.rmax as m

        class L(m.RMAXEventListener):
            def __init__(self):
                self.trace = []

            def end_of_timestep(self, lv):
                self.trace.append([canon(lv['s']), canon(lv['a']), float(lv['r']), canon(lv['ns'])])
                if len(self.trace) > STEP_CAP:
                    raise ScenarioCap(f"more than {STEP_CAP} steps")
                cb()

            def end_of_episode(self, lv):
                self.trace.append('end')
                cb()

            def results(self):
                return self.trace
        return m.RMAX(episodes=p['episodes'], rmax=None, num_transition_samples=p['m'], seed=seed, event_listener_class=L)
    if comp == 'bpi':
        import msdm.algorithms.fscboundedpolicyiteration as m
        return m.FSCBoundedPolicyIteration(controller_state_count=p['nodes'], iterations=p['iterations'], seed=seed)
    if comp == 'ga':
        import msdm.algorithms.fscgradientascent as m
        return m.FSCGradientAscent(controller_state_count=p['nodes'], iterations=p['iterations'], seed=seed)
    if comp == 'semimdp':
        return {}        # holder: run_component keeps the semi-MDP and its option here, so that a re-run after an abort uses the same objects
    return None


def _arr(x):
    return np.array(x.detach().numpy() if hasattr(x, 'detach') else x, dtype=float).tolist()


def run_component(sc, problem, algo, env):
    """Execute the scenario on `problem` with `algo` (may be a reused object); returns canonical JSON."""
    comp, p, seed = sc['component'], sc['params'], sc['seed']
    if comp == 'laostar':
        r = algo.plan_on(problem)
        nodes = sorted(([canon(s), float(n['value']), canon(n['optimal_action']), n['expandedorder'], n['visitorder']] for s, n in r.explicit_graph.states_to_nodes.items()),
                       key=lambda x: str(x[0]))
        return dict(initial_value=float(r.initial_value), converged=bool(r.converged), nodes=nodes,
                    policy=sorted(_policy_table(r.policy, list(r.solution_graph.states_to_nodes)), key=lambda x: str(x[0])))
    if comp == 'lrtdp':
        r = algo.plan_on(problem)
        return dict(initial_value=float(r.initial_value), V=canon(dict(dict.items(r.V))), orders=canon({s: list(a) for s, a in r.action_orders.items()}),
                    solved=canon({s: bool(v) for s, v in dict.items(r.solved)}),
                    policy=sorted(_policy_table(r.policy, list(dict.keys(r.V))), key=lambda x: str(x[0])))
    if comp in ('astar', 'bfs'):
        r = algo.plan_on(problem)
        if r is None:
            return dict(plan=None)
        d = dict(path=canon(list(r.path)), policy=_policy_table(r.policy, list(r.path)[:-1]))
        if comp == 'astar':
            d['path_value'] = float(r.path_value)
        return d
    if comp in ('qlearning', 'sarsa', 'expectedsarsa', 'doubleq'):
        r = algo.train_on(problem)
        return dict(q=canon({s: dict(av) for s, av in r.q_values.items()}), trace=r.event_listener_results,
                    policy=sorted(_policy_table(r.policy, list(r.q_values.keys())), key=lambda x: str(x[0])))
    if comp == 'rmax':
        algo.rmax = float(np.max(problem.reward_matrix))
        r = algo.train_on(problem)
        return dict(q=canon({s: {a: float(v) for a, v in av.items()} for s, av in r.q_values.items()}), trace=r.event_listener_results,
                    policy=sorted(_policy_table(r.policy, list(r.q_values.keys())), key=lambda x: str(x[0])))
    if comp == 'bpi':
        r = algo.train_on(problem)
        return dict(value=float(r.value), As=_arr(r.policy.action_strategy), Ns=_arr(r.policy.observation_strategy), ini=_arr(r.policy.initial_state_dist),
                    converged=bool(r.converged))
    if comp == 'ga':
        r = algo.train_on(problem)
        return dict(value=float(r.value.expected_value), As=_arr(r.policy.action_strategy), Ns=_arr(r.policy.observation_strategy),
                    ini=_arr(r.policy.initial_state_dist))
    if comp == 'semimdp':
        import msdm.core.semimdp.semimdp as sm
        from msdm.core.semimdp.option import Option
        pol = _rand_policy(problem, p['pseed'], mix=p.get('mix', False))
        states = sorted(problem.state_list, key=lambda x: str(canon(x)))
        term = set(states[::2]) | {s for s in states if problem.is_absorbing(s)}

        class Opt(Option):
            def __init__(self, name):
                self.name = name
                self.policy = pol
                self.max_steps = p['max_steps']

            def is_initial(self, s):
                return True

            def is_terminal(self, s):
                return s in term

            def __hash__(self):
                return hash(self.name)

            def __eq__(self, other):
                return isinstance(other, Opt) and other.name == self.name

            def __repr__(self):
                return f"Opt({self.name})"
        o = Opt(p['optname'])
        if p.get('planned'):
            # a sub-goal option planned by value iteration, created WITHOUT a name (as the library's own examples do)
            from msdm.core.semimdp.option import PlanToSubgoalOption
            from msdm.algorithms.valueiteration import ValueIteration
            planner = ValueIteration(max_iterations=2000)
            if p.get('planner') in ('lao', 'lrtdp'):
                # an order-sensitive seeded planner: the order in which it meets the sub-task's start states and actions matters
                _v = MDPView(sc['problem']['spec']) if sc['problem'].get('type') == 'mdp' else None
                hub = (max(0.0, max(_v.R.values())) / (1 - _v.gamma)) if _v is not None and _v.gamma < 1 else None
                if hub is not None:
                    if p['planner'] == 'lao':
                        from msdm.algorithms.laostar import LAOStar
                        planner = LAOStar(heuristic=lambda s_: hub, seed=seed + 5, max_lao_star_iterations=3000)
                    else:
                        from msdm.algorithms.lrtdp import LRTDP
                        planner = LRTDP(heuristic=lambda s_: hub, seed=seed + 5, randomize_action_order=True, iterations=3000)
            o = PlanToSubgoalOption(mdp=problem, initial_states=[x for x in states if x not in term] or states[:1], subgoals=sorted(term, key=lambda x: str(canon(x))),
                                    planner=planner, include_mdp_absorbing_states=True, max_steps=p['max_steps'])
        if getattr(env, 'share', False) and sc['problem'].get('type') == 'mdp':
            # the option object is shared with a second semi-MDP over another model (same keys), which uses it first
            other = make_mdp(MDPView(nested_variant_spec(sc['problem']['spec'], 3)), None)
            first = sm.SemiMarkovDecisionProcess(mdp=other, options=[o], n_option_simulations=2, seed=seed + 1)
            for s0 in states[:2]:
                try:
                    first.next_state_transit_time_reward_dist(s0, o)
                except Exception:
                    pass
        if isinstance(algo, dict) and 'smdp' in algo:
            smdp, o = algo['smdp'], algo['option']
        else:
            smdp = sm.SemiMarkovDecisionProcess(mdp=problem, options=[o], n_option_simulations=p['nsim'], seed=seed)
            if isinstance(algo, dict):
                algo.update(smdp=smdp, option=o)
        out = []
        from msdm.core.exceptions import AlgorithmException
        for s in states[:3]:
            try:
                d = smdp.next_state_transit_time_reward_dist(s, o)
                out.append(sorted(([canon(k), float(v)] for k, v in d.items()), key=lambda x: str(x[0])))
            except AlgorithmException:
                out.append('limit')
        pairs = []
        if 'limit' in out and not p.get('planned'):
            # the less common exit: a query died on the step limit; the user raises the limit and asks the SAME semi-MDP again.
            # It must answer like an equally seeded semi-MDP that never saw the failed query
            s0 = states[out.index('limit')]
            old_ms = o.max_steps
            try:
                o.max_steps = 10 ** 4
                fresh = sm.SemiMarkovDecisionProcess(mdp=problem, options=[o], n_option_simulations=p['nsim'], seed=seed)
                res = []
                for which in (smdp, fresh):
                    try:
                        d = which.next_state_transit_time_reward_dist(s0, o)
                        res.append(sorted(([canon(k), float(v)] for k, v in d.items()), key=lambda x: str(x[0])))
                    except AlgorithmException:
                        res.append('limit')
                pairs.append(["semimdp: the query that hit the step limit, repeated with a higher limit on the same semi-MDP vs on a fresh equally seeded one", res[0], res[1]])
            finally:
                o.max_steps = old_ms
        extra = {}
        if p.get('planned') and p.get('planner') in ('lao', 'lrtdp') and hasattr(o, 'planning_result'):
            # the seeded planner's own account of planning the sub-task (what it explored, in which order it got there)
            try:
                pr = o.planning_result
                if p['planner'] == 'lao':
                    extra = dict(iterations=int(pr.iterations), values=sorted(([canon(k), float(v)] for k, v in pr.state_value_map.items()), key=lambda x: str(x[0])))
                else:
                    extra = dict(values=sorted(([canon(k), float(v)] for k, v in dict.items(pr.V)), key=lambda x: str(x[0])))
            except Exception as e:
                extra = dict(planning_result='undefined:' + type(e).__name__)
        return dict(dists=out, must_equal=pairs, plan=extra)
    if comp == 'implicit':
        from msdm.core.distributions import ImplicitDistribution
        pr = p['p']
        d = ImplicitDistribution(lambda rng: (rng.random() < pr, rng.randint(0, 2)), n_samples=p['n'], _seed=seed)
        out = []
        pairs = []
        for op in p['ops']:
            if op == 'items':
                out.append(sorted(([canon(k), float(v)] for k, v in d.items()), key=lambda x: str(x[0])))
            elif op == 'expectation':
                out.append(float(d.expectation(lambda e: float(e[1]))))
            elif op == 'sample':
                out.append(canon(d.sample()))
            elif op == 'marginalize':
                got = sorted(([canon(k), float(v)] for k, v in d.marginalize(lambda e: e[1]).items()), key=lambda x: str(x[0]))
                out.append(got)
                # same seed, same derivation, from a parent that has not been used yet
                fresh = ImplicitDistribution(lambda rng: (rng.random() < pr, rng.randint(0, 2)), n_samples=p['n'], _seed=seed)
                want = sorted(([canon(k), float(v)] for k, v in fresh.marginalize(lambda e: e[1]).items()), key=lambda x: str(x[0]))
                pairs.append(["implicit/marginalize: derived from a parent that was used before vs from an equally seeded fresh parent", got, want])
            elif op == 'condition':
                out.append(canon(d.condition(lambda e: e[1] != 1).sample()))
            elif op in ('ext', 'ext_condition', 'ext_marginalize'):
                # "equally seeded generator => identical results": two generators with the same seed, same distribution object
                x = d if op == 'ext' else (d.condition(lambda e: e[1] != 1) if op == 'ext_condition' else d.marginalize(lambda e: e[1]))
                g1, g2 = env.rng_factory(seed + 17), env.rng_factory(seed + 17)
                a = [canon(x.sample(rng=g1)) for _ in range(4)]
                b = [canon(x.sample(rng=g2)) for _ in range(4)]
                out.append(a)
                pairs.append([f"implicit/{op}: 4 samples drawn with two generators seeded alike", a, b])
        return dict(ops=out, must_equal=pairs)
    if comp == 'rollout_mdp':
        pol = _rand_policy(problem, p['pseed'], p.get('tabular', False), p.get('mix', False))
        _share_policy(sc, pol, env, seed)
        tr = pol.run_on(problem, max_steps=p['cap'], rng=env.rng_factory(seed))
        tr2 = pol.run_on(problem, max_steps=p['cap'], rng=env.rng_factory(seed))
        a, b = [canon(dict(st)) for st in tr.steps], [canon(dict(st)) for st in tr2.steps]
        return dict(steps=a, must_equal=[["rollout_mdp: same policy and model objects rolled out twice with generators seeded alike", a, b]])
    if comp == 'evaluate_mdp':
        pol = _rand_policy(problem, p['pseed'], p.get('tabular', False), p.get('mix', False))
        from msdm.core.mdp.policy import Policy as _P
        _share_policy(sc, pol, env, seed)
        ev = _P.evaluate_on(pol, problem, n_simulations=p['nsim'], max_steps=p['cap'], rng=env.rng_factory(seed))
        return dict(initial_value=float(ev.initial_value), state_value=canon({s: float(v) for s, v in ev.state_value.items()}),
                    occupancy=canon({s: float(v) for s, v in ev.state_occupancy.items()}))
    if comp == 'rollout_pomdp':
        pol = _pomdp_policy(problem, p)
        start = None if p['start'] is None else sorted(problem.initial_state_dist().support, key=lambda x: str(canon(x)))[0]
        def tab(tr):
            return [[canon(st.state), canon(st.action), canon(st.nextstate), canon(st.reward), canon(st.observation),
                     canon(_agent(st.agentstate))] for st in tr]
        if getattr(env, 'share', False):
            # the policy object has been rolled out before, with other seeds
            for k_ in range(1, 9):
                pol.run_on(problem, initial_state=start, max_steps=p['cap'], rng=_pyrandom.Random(seed + k_))
        a = tab(pol.run_on(problem, initial_state=start, max_steps=p['cap'], rng=env.rng_factory(seed)))
        b = tab(pol.run_on(problem, initial_state=start, max_steps=p['cap'], rng=env.rng_factory(seed)))
        return dict(steps=a, must_equal=[["rollout_pomdp: same policy and model objects rolled out twice with generators seeded alike", a, b]])
    raise ValueError(comp)


def _share_policy(sc, pol, env, seed):
    """(env.share) the policy object is first rolled out and evaluated on another model with the same keys"""
    if not getattr(env, 'share', False) or sc['problem'].get('type') != 'mdp':
        return
    from msdm.core.mdp.policy import Policy as _P
    other = make_mdp(MDPView(nested_variant_spec(sc['problem']['spec'], 3)), None)
    try:
        pol.run_on(other, max_steps=3, rng=_pyrandom.Random(seed + 1))
        _P.evaluate_on(pol, other, n_simulations=2, max_steps=3, rng=_pyrandom.Random(seed + 2))
    except Exception:
        pass


def _agent(ag):
    if ag is None:
        return None
    if hasattr(ag, 'probs'):
        return [float(x) for x in ag.probs]
    return [float(x) for x in np.asarray(ag, dtype=float).ravel()]


def _pomdp_policy(pomdp, p):
    r = np.random.default_rng(p['pseed'])
    nA, nS, nO = pomdp.observation_matrix.shape
    kind = p['policy']
    if kind == 'alpha':
        from msdm.core.pomdp.alphavectorpolicy import AlphaVectorPolicy
        return AlphaVectorPolicy(pomdp, r.integers(-3, 4, size=(2, nS)).astype(float))
    if kind == 'qmdp_sym':
        from msdm.algorithms.qmdp import QMDPPolicy
        q = sym_qmdp_table()
        sl, al = list(pomdp.state_list), list(pomdp.action_list)      # (make_pomdp declares both lists in id order)
        return QMDPPolicy(pomdp, {s_: {a_: q[i][j] for j, a_ in enumerate(al)} for i, s_ in enumerate(sl)})
    if kind == 'qmdp':
        from msdm.algorithms.qmdp import QMDPPolicy
        q = r.integers(-2, 3, size=(nS, nA)).astype(float)
        return QMDPPolicy(pomdp, {s: {a: q[i, j] for j, a in enumerate(pomdp.action_list)} for i, s in enumerate(pomdp.state_list)})
    from msdm.core.pomdp.finitestatecontroller import StochasticFiniteStateController
    nN = 2
    return StochasticFiniteStateController(pomdp, r.dirichlet(np.ones(nA), size=nN), r.dirichlet(np.ones(nN), size=(nN, nA, nO)), r.dirichlet(np.ones(nN)))


def warm_caches(problem):
    for attr in ('state_list', 'action_list', 'transition_matrix', 'reward_matrix', 'initial_state_vec', 'absorbing_state_vec',
                 'observation_list', 'observation_matrix'):
        try:
            getattr(problem, attr)
        except Exception:
            pass
    try:
        problem.reachable_states()
    except Exception:
        pass


def reusable(comp):
    return comp in ('laostar', 'lrtdp', 'astar', 'bfs', 'qlearning', 'sarsa', 'expectedsarsa', 'doubleq', 'rmax', 'bpi', 'ga')

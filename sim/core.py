"""Simulator core: the scheduler that owns every private random stream of msdm.

One `Scheduler` per simulated run.  Every stream msdm creates (through the
patched module attribute `random`) or is handed (`rng=`) is a `SimRandom` that
asks the scheduler for each outcome.  Each call is a *decision point*: it is
logged, counted against the run's cap and answered according to the run's mode
or to a replay script.

Nothing here reads a clock or the process-global generators.
"""
import random as _pyrandom
import hashlib
import math
import contextlib


class Violation(Exception):
    """The property under check does not hold on this execution."""

    def __init__(self, clause, message, data=None):
        super().__init__(f"{clause}: {message}")
        self.clause = clause
        self.message = message
        self.data = data or {}


class Inconclusive(Exception):
    """A budget was hit; never an alarm."""


class HarnessError(Exception):
    """The harness itself is broken (never reported as a violation)."""


class InjectedAbort(Exception):
    """Fault F6: thrown from a harness call-back to abort an msdm run."""


ONE_MINUS = 1.0 - 2.0 ** -53


def _nextafter(x, up):
    return math.nextafter(x, 2.0 if up else -1.0)


class Scheduler:
    """Decides every outcome of every SimRandom of one run.

    modes (per decision, from `mode_at(n)`):
      P proportional, U uniform-legal, R rare-biased, X extremal, G cooperative
    `script`: list of recorded outcomes to replay (then every decision is taken
    from it; when exhausted or illegal the first legal outcome is used and the
    run is marked diverged).
    """

    def __init__(self, seed_str, mode='P', budget=None, beta=0.5, cap=50000,
                 script=None, advisor=None, thresholds=(0.5,), float_styles=None,
                 after='G'):
        self.prng = _pyrandom.Random(seed_str)
        self.mode = mode
        self.budget = budget            # decisions in `mode`, then `after`
        self.after = after
        self.beta = beta
        self.cap = cap
        self.script = list(script) if script is not None else None
        self.script_pos = 0
        self.diverged = False
        self.advisor = advisor          # callable(kind, population, weights, legal) -> index or None
        self.thresholds = tuple(thresholds)
        self.n = 0
        self.log = []                   # (kind, size, outcome)
        self.fired = {}                 # fault kind -> count (as fired)
        self.hooks = []                 # callables(kind) run at each decision (fault injection at N1)
        # X-mode float style for this run
        styles = float_styles or ('uniform', 'increasing', 'decreasing', 'straddle', 'extremes')
        self.float_style = self.prng.choice(styles)
        self.perm_style = self.prng.choice(('identity', 'reverse', 'rotate', 'random'))
        self.pick_style = self.prng.choice(('first', 'last', 'random'))
        self._mono = 0

    # ------------------------------------------------------------------ util
    def fire(self, kind, k=1):
        self.fired[kind] = self.fired.get(kind, 0) + k

    def current_mode(self):
        if self.script is not None:
            return self.after           # only reached once the script is exhausted
        if self.budget is not None and self.n > self.budget:
            return self.after
        return self.mode

    def _tick(self, kind):
        self.n += 1
        if self.n > self.cap:
            raise Inconclusive(f"decision cap {self.cap} reached")
        for h in self.hooks:
            h(kind)

    def _scripted(self):
        if self.script is None:
            return None
        if self.script_pos < len(self.script):
            v = self.script[self.script_pos]
            self.script_pos += 1
            return v
        # script exhausted: the tail is decided by the run's own scheduler in its
        # closing mode (cooperative where an advisor exists), so truncated runs end
        self.diverged = True
        self.script_pos += 1
        return None

    def digest(self):
        return hashlib.sha256(repr(self.log).encode()).hexdigest()[:16]

    # ------------------------------------------------------------- decisions
    def d_random(self):
        self._tick('random')
        sc = self._scripted()
        if sc is not None:
            if sc[0] == 'f' and isinstance(sc[1], float) and 0.0 <= sc[1] < 1.0:
                x = sc[1]
            else:
                if sc[0] != 'default':
                    self.diverged = True
                x = 0.0
        else:
            m = self.current_mode()
            if m == 'X':
                x = self._x_float()
                self.fire('F2_extremal_draw')
            else:
                x = self.prng.random()
        self.log.append(('f', x))
        return x

    def _x_float(self):
        st = self.float_style
        if st == 'increasing':
            self._mono += 1
            return min(ONE_MINUS, self._mono * 2.0 ** -24)
        if st == 'decreasing':
            self._mono += 1
            return max(0.0, 1.0 - self._mono * 2.0 ** -24)
        if st == 'straddle':
            t = self.prng.choice(self.thresholds)
            c = self.prng.randrange(4)
            x = (t, _nextafter(t, False), _nextafter(t, True), self.prng.random())[c]
            return min(max(x, 0.0), ONE_MINUS)
        if st == 'extremes':
            return self.prng.choice((0.0, ONE_MINUS, self.prng.random()))
        return self.prng.random()

    def d_index(self, kind, n, weights=None, population=None):
        """Choose an index in range(n); with weights only indices of weight > 0."""
        self._tick(kind)
        if weights is not None:
            legal = [i for i, w in enumerate(weights) if w > 0]
            if not legal:
                raise HarnessError("choices() called with no positive weight")
        else:
            legal = range(n)        # lazy: randint(0, 2**30) must not materialise a list
        sc = self._scripted()
        if sc is not None:
            if sc[0] == 'i' and isinstance(sc[1], int) and sc[1] in legal:
                i = sc[1]
            else:
                if sc[0] != 'default':
                    self.diverged = True
                i = legal[0]
            self.log.append(('i', i))
            return i
        m = self.current_mode()
        i = None
        if m == 'G' and self.advisor is not None:
            i = self.advisor(kind, population, weights, legal)
            if i is not None and i not in legal:
                raise HarnessError("advisor returned an illegal outcome")
        if i is None:
            if weights is None:
                if m == 'X':
                    self.fire('F2_extremal_draw')
                    i = {'first': legal[0], 'last': legal[-1]}.get(self.pick_style)
                    if i is None:
                        i = legal[self.prng.randrange(len(legal))]
                else:
                    i = legal[self.prng.randrange(len(legal))]
            elif m in ('P', 'G'):
                i = self._proportional(weights, legal)
            elif m == 'U':
                i = legal[self.prng.randrange(len(legal))]
                self.fire('F1_rare_outcome')
            elif m == 'R':
                if self.prng.random() < self.beta:
                    i = min(legal, key=lambda j: (weights[j], j))
                    self.fire('F1_rare_outcome')
                else:
                    i = self._proportional(weights, legal)
            elif m == 'X':
                self.fire('F2_extremal_draw')
                i = {'first': legal[0], 'last': legal[-1]}.get(self.pick_style)
                if i is None:
                    i = legal[self.prng.randrange(len(legal))]
            else:
                raise HarnessError(f"unknown mode {m}")
        self.log.append(('i', i))
        return i

    def _proportional(self, weights, legal):
        tot = sum(weights[j] for j in legal)
        x = self.prng.random() * tot
        acc = 0.0
        for j in legal:
            acc += weights[j]
            if x < acc:
                return j
        return legal[-1]

    def d_perm(self, n):
        self._tick('shuffle')
        sc = self._scripted()
        if sc is not None:
            if sc[0] == 'p' and sorted(sc[1]) == list(range(n)):
                p = list(sc[1])
            else:
                if sc[0] != 'default':
                    self.diverged = True
                p = list(range(n))
            self.log.append(('p', tuple(p)))
            return p
        m = self.current_mode()
        p = list(range(n))
        if m == 'X':
            self.fire('F2_extremal_draw')
            st = self.perm_style
            if st == 'reverse':
                p.reverse()
            elif st == 'rotate' and n > 1:
                k = 1 + self.prng.randrange(n - 1)
                p = p[k:] + p[:k]
            elif st == 'random':
                self.prng.shuffle(p)
        else:
            self.prng.shuffle(p)
        self.log.append(('p', tuple(p)))
        return p

    def recorded_script(self):
        return [list(e) if e[0] != 'p' else ['p', list(e[1])] for e in self.log]


def load_script(js):
    out = []
    for e in js:
        if e[0] == 'p':
            out.append(('p', list(e[1])))
        else:
            out.append((e[0], e[1]))
    return out


class SimRandom(_pyrandom.Random):
    """A random.Random whose every answer is the scheduler's decision."""

    def __new__(cls, sched, requested_seed=None):
        return super().__new__(cls, 0)

    def __init__(self, sched, requested_seed=None):
        super().__init__(0)
        self.sched = sched
        self.requested_seed = requested_seed

    def seed(self, *a, **k):
        return super().seed(0)

    def random(self):
        return self.sched.d_random()

    def getrandbits(self, k):
        # consumed by nothing msdm does directly; answer from decisions
        x = 0
        for _ in range((k + 29) // 30):
            x = (x << 30) | self.sched.d_index('bits', 1 << 30)
        return x >> (((k + 29) // 30) * 30 - k)

    def uniform(self, a, b):
        return a + (b - a) * self.sched.d_random()

    def choice(self, seq):
        if not len(seq):
            raise IndexError('Cannot choose from an empty sequence')
        return seq[self.sched.d_index('choice', len(seq), None, seq)]

    def randrange(self, start, stop=None, step=1):
        if stop is None:
            start, stop = 0, start
        r = range(start, stop, step)
        if not len(r):
            raise ValueError("empty range")
        return r[self.sched.d_index('randrange', len(r))]

    def randint(self, a, b):
        return self.randrange(a, b + 1)

    def shuffle(self, x):
        p = self.sched.d_perm(len(x))
        x[:] = [x[i] for i in p]

    def sample(self, population, k, *, counts=None):
        pop = list(population)
        p = self.sched.d_perm(len(pop))
        return [pop[i] for i in p[:k]]

    def choices(self, population, weights=None, *, cum_weights=None, k=1):
        pop = list(population)
        if cum_weights is not None:
            cw = list(cum_weights)
            weights = [cw[0]] + [b - a for a, b in zip(cw, cw[1:])]
        w = None if weights is None else [float(x) for x in weights]
        if w is not None and len(w) != len(pop):
            raise ValueError('The number of weights does not match the population')
        return [pop[self.sched.d_index('choices', len(pop), w, pop)] for _ in range(k)]


class FaithfulRandom(_pyrandom.Random):
    """Genuine Mersenne-Twister stream for the requested seed; every primitive
    draw is a logged decision point where faults can be injected (C13)."""

    def __init__(self, seed=None, sched=None):
        self._sched = sched
        super().__init__(seed)

    def random(self):
        s = self._sched
        if s is not None:
            s.n += 1
            for h in s.hooks:
                h('random')
        return super().random()

    def getrandbits(self, k):
        s = self._sched
        if s is not None:
            s.n += 1
            for h in s.hooks:
                h('bits')
        return super().getrandbits(k)


class RandomProxy:
    """Stands in for the module `random` inside one msdm module.

    `.Random(seed)` returns a simulator-owned stream; any other attribute access
    means the code reached for the process-global generator: it is recorded and
    forwarded to the real module (so behaviour is unchanged)."""

    def __init__(self, sched, faithful=False, on_global=None):
        self._sched = sched
        self._faithful = faithful
        self._on_global = on_global
        self.global_touches = []
        self.streams = []

    def Random(self, seed=None):
        if self._faithful:
            r = FaithfulRandom(seed, self._sched)
        else:
            r = SimRandom(self._sched, seed)
        self.streams.append(seed)
        return r

    _MODULE_LEVEL = ('random', 'choice', 'choices', 'shuffle', 'randint', 'randrange', 'sample', 'uniform', 'getrandbits')

    def __getattr__(self, name):
        if name.startswith('__'):
            raise AttributeError(name)
        self.global_touches.append(name)
        if self._on_global is not None:
            self._on_global(name)
        if not self._faithful and name in self._MODULE_LEVEL:
            # the code uses the module-level functions (no seed was given): in simulation the "global generator"
            # is one more scheduler-owned stream, so un-seeded paths are explored and replayed like seeded ones
            g = self.__dict__.get('_global')
            if g is None:
                g = SimRandom(self._sched, None)
                self.__dict__['_global'] = g
            return getattr(g, name)
        return getattr(_pyrandom, name)


@contextlib.contextmanager
def patched_random(modules, proxy):
    """Swap the module-level name `random` in each given msdm module."""
    saved = []
    try:
        for m in modules:
            saved.append((m, m.random))
            m.random = proxy
        yield proxy
    finally:
        for m, r in saved:
            m.random = r


def close(a, b, rel=1e-9, abs_=1e-12):
    return abs(a - b) <= abs_ + rel * (abs(a) + abs(b))


def close6(a, b):
    return abs(a - b) <= 1e-6 * (1 + abs(a) + abs(b))

"""Model simplification candidates for minimisation (DESIGN 3.7 step 4)."""
import copy

from .models import MDPView
from .refsolve import game_W


def _with(case, spec):
    c = copy.deepcopy(case)
    c['spec'] = spec
    return c


def mdp_ok(spec, need_proper):
    try:
        v = MDPView(spec)
    except Exception:
        return False
    if not v.init or abs(sum(v.init.values()) - 1) > 1e-12:
        return False
    for s in range(v.N):
        if not v.A.get(s):
            return False
        for a in v.A[s]:
            d = v.T[s, a]
            if not d or abs(sum(d.values()) - 1) > 1e-12:
                return False
            if any(t >= v.N for t in d):
                return False
    if need_proper:
        W = game_W(v)
        if any(w == float('inf') for w in W.values()):
            return False
    return True


def renumber(spec, keep):
    """keep: sorted list of old state ids to retain (non-absorbing first)."""
    old_abs = set(spec['absorbing'])
    keep_na = [s for s in keep if s not in old_abs]
    keep_ab = [s for s in keep if s in old_abs]
    m = {s: i for i, s in enumerate(keep_na + keep_ab)}
    sp = copy.deepcopy(spec)
    sp['n'] = len(keep_na)
    sp['absorbing'] = [m[s] for s in keep_ab]
    tr = []
    for s, a, outs in spec['trans']:
        if s not in m:
            continue
        no = [[m[t], p, r] for t, p, r in outs if t in m]
        tr.append([m[s], a, no])
    sp['trans'] = tr
    sp['init'] = [[m[s], p] for s, p in spec['init'] if s in m]
    return sp


def mdp_candidates(case, need_proper=False, uniform_actions=False):
    spec = case['spec']
    v = MDPView(spec)
    out = []
    # unreachable states
    seen = set(v.init)
    fr = list(seen)
    while fr:
        s = fr.pop()
        for a in v.A[s]:
            for t in v.T[s, a]:
                if t not in seen:
                    seen.add(t)
                    fr.append(t)
    if len(seen) < v.N and any(s in v.absorbing for s in seen):
        out.append(renumber(spec, sorted(seen)))
    # single initial state
    if len(spec['init']) > 1:
        for s, p in spec['init']:
            sp = copy.deepcopy(spec)
            sp['init'] = [[s, 8]]
            out.append(sp)
    # drop zero entries, collapse transitions
    for i, (s, a, outs) in enumerate(spec['trans']):
        if any(p == 0 for t, p, r in outs):
            sp = copy.deepcopy(spec)
            sp['trans'][i][2] = [o for o in outs if o[1] > 0]
            out.append(sp)
        pos = [o for o in outs if o[1] > 0]
        if len(pos) > 1:
            for t, p, r in pos:
                sp = copy.deepcopy(spec)
                sp['trans'][i][2] = [[t, 8, r]]
                out.append(sp)
    # drop actions
    if not uniform_actions:
        for s in range(v.N):
            if len(v.A[s]) > 1:
                for a in v.A[s]:
                    sp = copy.deepcopy(spec)
                    sp['trans'] = [x for x in spec['trans'] if not (x[0] == s and x[1] == a)]
                    out.append(sp)
    else:
        if spec['nA'] > 1:
            for a in range(spec['nA']):
                sp = copy.deepcopy(spec)
                tr = []
                for s_, a_, outs in spec['trans']:
                    if a_ == a:
                        continue
                    tr.append([s_, a_ - 1 if a_ > a else a_, outs])
                sp['trans'] = tr
                sp['nA'] = spec['nA'] - 1
                out.append(sp)
    # simplify numbers
    sp = copy.deepcopy(spec)
    changed = False
    for x in sp['trans']:
        for o in x[2]:
            r = float(max(-1, min(1, round(o[2]))))
            if r != o[2]:
                o[2] = r
                changed = True
    if changed:
        out.append(sp)
    for g in (0.5, 0.9, 1.0):
        if spec['gamma'] != g and abs(spec['gamma'] - g) == min(abs(spec['gamma'] - x) for x in (0.5, 0.9, 1.0)):
            sp = copy.deepcopy(spec)
            sp['gamma'] = g
            out.append(sp)
    if spec['kind'] != 'int':
        sp = copy.deepcopy(spec)
        sp['kind'] = 'int'
        out.append(sp)
    for sp in out:
        if mdp_ok(sp, need_proper):
            yield _with(case, sp)


def config_candidates(case, field_options):
    """field_options: {path tuple: [simpler values in order of preference]}"""
    for path, values in field_options.items():
        cur = case
        for p in path[:-1]:
            cur = cur[p]
        now = cur.get(path[-1])
        for v in values:
            if v == now:
                break
            c = copy.deepcopy(case)
            cc = c
            for p in path[:-1]:
                cc = cc[p]
            cc[path[-1]] = v
            yield c

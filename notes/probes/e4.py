import random, numpy as np, hashlib, sys, json, warnings
warnings.filterwarnings('ignore')
from msdm.core.mdp import QuickTabularMDP, FunctionalPolicy
from msdm.core.distributions import DictDistribution
from msdm.algorithms.laostar import LAOStar
from msdm.algorithms.lrtdp import LRTDP
from msdm.algorithms.search import AStarSearch, BreadthFirstSearch
from msdm.algorithms.tdlearning import QLearning, SARSA, ExpectedSARSA, DoubleQLearning
from msdm.algorithms.rmax import RMAX
from msdm.core.semimdp.semimdp import SemiMarkovDecisionProcess
from msdm.core.semimdp.option import Option

# string-state stochastic chain MDP with ties
S = ['s%d'%i for i in range(6)] + ['goal']
Aset = ['fwd','back','jump','stay']
def nsd(s,a):
    if s=='goal': return DictDistribution({'goal':1.0})
    i = int(s[1:])
    if a=='fwd': return DictDistribution({(S[i+1]):.8, s:.2})
    if a=='jump': return DictDistribution({(S[min(i+2,6)]):.5, S[max(i-1,0)]:.5})
    if a=='back': return DictDistribution({S[max(i-1,0)]:1.0})
    return DictDistribution({s:.5, S[i+1]:.5})
mdp = lambda g=.95: QuickTabularMDP(next_state_dist=nsd, reward=lambda s,a,ns: -1.0 if a!='jump' else -1.5, actions=lambda s: Aset,
        initial_state_dist=DictDistribution({'s0':.5,'s1':.5}), is_absorbing=lambda s: s=='goal', discount_rate=g)
out = {}
def dig(x): return hashlib.sha1(repr(x).encode()).hexdigest()[:10]
m = mdp()
r = LAOStar(heuristic=lambda s:0, seed=3).plan_on(m)
out['lao'] = dig((r.initial_value, sorted(r.state_value_map.items()), sorted((s, n.optimal_action, n.expandedorder) for s,n in r.explicit_graph.states_to_nodes.items())))
r = LRTDP(heuristic=lambda s:0, seed=3, randomize_action_order=True).plan_on(m)
out['lrtdp'] = dig((r.initial_value, sorted(r.V.items()), sorted((s, tuple(a)) for s,a in r.action_orders.items())))
for cls in (QLearning, SARSA, ExpectedSARSA, DoubleQLearning):
    r = cls(episodes=5, seed=3, rand_choose=.2).train_on(m)
    out[cls.__name__] = dig(sorted((s, sorted(av.items())) for s,av in r.q_values.items()))
m2 = QuickTabularMDP(next_state_dist=nsd, reward=lambda s,a,ns: 0.0 if ns!='goal' or s=='goal' else 1.0, actions=lambda s: Aset,
        initial_state_dist=DictDistribution({'s0':.5,'s1':.5}), is_absorbing=lambda s: s=='goal', discount_rate=.9)
r = RMAX(episodes=5, seed=3, rmax=1.0, num_transition_samples=2).train_on(m2)
out['rmax'] = dig(sorted((s, sorted(av.items())) for s,av in r.q_values.items()))
# policy rollouts
pol = FunctionalPolicy(lambda s: DictDistribution.uniform(Aset))
out['rollout'] = dig([tuple(st.items()) for st in pol.run_on(m, rng=random.Random(5)).steps])
# semimdp
class Opt(Option):
    def __init__(self, name): self.name=name; self.policy=pol; self.max_steps=1000
    def is_initial(self,s): return True
    def is_terminal(self,s): return s in ('s3','goal')
    def __hash__(self): return hash(self.name)
    def __eq__(self,o): return isinstance(o, Opt) and self.name==o.name
o = Opt('to3')
sm = SemiMarkovDecisionProcess(mdp=m, options=[o], n_option_simulations=20, seed=11)
out['semimdp'] = dig(sorted(sm.next_state_transit_time_reward_dist('s0', o).items()))
# deterministic graph for search, string states
G = {'a':{'x':('b',1),'y':('c',1)}, 'b':{'x':('d',1)}, 'c':{'x':('d',1)}, 'd':{'x':('g',1),'y':('a',0)}, 'g':{'x':('g',0)}}
dm = QuickTabularMDP(next_state=lambda s,a: G[s][a][0], reward=lambda s,a,ns: -G[s][a][1], actions=lambda s: sorted(G[s]), initial_state='a', is_absorbing=lambda s: s=='g')
r = AStarSearch(seed=4, tie_breaking_strategy='random', randomize_action_order=True).plan_on(dm)
out['astar'] = dig((r.path, r.path_value))
r = BreadthFirstSearch(seed=4, randomize_action_order=True).plan_on(dm)
out['bfs'] = dig((r.path,))
print(json.dumps(out))

# throwaway: POMDP roll-outs (value-based + controller policies) and controller history conditionals
import random, warnings, sys, numpy as np
warnings.filterwarnings('ignore')
from msdm.core.pomdp import TabularPOMDP
from msdm.core.pomdp.tabularpomdp import Belief
from msdm.core.pomdp.alphavectorpolicy import AlphaVectorPolicy
from msdm.algorithms.qmdp import QMDPPolicy
from msdm.core.pomdp.finitestatecontroller import StochasticFiniteStateController
from msdm.core.distributions import DictDistribution
exec(open('p1.py').read().split("def gen(rng)")[0].replace("import msdm.algorithms.lrtdp as lr","").replace("import msdm.algorithms.laostar as lao",""))
def dy(rng,k):
    cuts = sorted(rng.sample(range(1,8), k-1)) if k>1 else []
    return [(b-a)/8 for a,b in zip([0]+cuts, cuts+[8])]
def gen(rng):
    nS=rng.randint(2,4); nA=rng.randint(1,3); nO=rng.randint(1,3)
    S=['s%d'%i for i in range(nS)]; A=['a%d'%i for i in range(nA)]; O=['o%d'%i for i in range(nO)]
    absorbing=set(rng.sample(S, rng.randint(0,1)))
    T={}; R={}; Ob={}
    for s in S:
        for a in A:
            succ=sorted(rng.sample(S, rng.randint(1,min(3,nS)))) if s not in absorbing else [s]; T[s,a]=dict(zip(succ,dy(rng,len(succ))))
            for t in succ: R[s,a,t]=float(rng.choice([-2,-1,0,1,3]))
    for a in A:
        for t in S:
            obs=sorted(rng.sample(O, rng.randint(1,nO))); Ob[a,t]=dict(zip(obs,dy(rng,len(obs))))
    k=rng.randint(1,min(2,nS)); init=dict(zip(sorted(rng.sample(S,k)),dy(rng,k)))
    return dict(S=S,A=A,O=O,T=T,R=R,Ob=Ob,init=init,absorbing=absorbing,gamma=rng.choice([.5,.9,.95]))
class P(TabularPOMDP):
    def __init__(self,sp): self.sp=sp; self.discount_rate=sp['gamma']
    def next_state_dist(self,s,a): return DictDistribution(self.sp['T'][s,a])
    def reward(self,s,a,ns): return self.sp['R'][s,a,ns]
    def actions(self,s): return list(self.sp['A'])
    def initial_state_dist(self): return DictDistribution(self.sp['init'])
    def is_absorbing(self,s): return s in self.sp['absorbing']
    def observation_dist(self,a,ns): return DictDistribution(self.sp['Ob'][a,ns])
bad=0; N=int(sys.argv[1]); base=int(sys.argv[2]); d7=0
for i in range(N):
    rng=random.Random(base+i); sp=gen(rng); pomdp=P(sp); nprng=np.random.default_rng(rng.randrange(10**6))
    S,A,O=sp['S'],sp['A'],sp['O']
    if len(pomdp.observation_list)!=len(O): continue   # some obs never emitted; skip in probe
    kind=rng.choice(['alpha','qmdp','fsc'])
    if kind=='alpha': pol=AlphaVectorPolicy(pomdp, nprng.normal(size=(rng.randint(1,3),len(pomdp.state_list))))
    elif kind=='qmdp': pol=QMDPPolicy(pomdp, {s:{a:float(nprng.integers(-2,3)) for a in A} for s in S})
    else:
        nN=rng.randint(1,3)
        As=nprng.dirichlet(np.ones(len(A)),size=nN); Ns=nprng.dirichlet(np.ones(nN),size=(nN,len(A),len(O))); ini=nprng.dirichlet(np.ones(nN))
        pol=StochasticFiniteStateController(pomdp, As, Ns, ini)
    cap=rng.choice([0,1,3,6]); start=rng.choice(list(pomdp.state_list))
    ia=None
    if kind!='fsc': ia=Belief(tuple(pomdp.state_list), tuple([1/len(pomdp.state_list)]*len(pomdp.state_list)))
    sr=SimRandom(random.Random(rng.random()), rng.choice('PUR'))
    tr=pol.run_on(pomdp, initial_state=start, initial_agentstate=ia, max_steps=cap, rng=sr)
    ok=True; why=''
    if tr[0].state!=start: ok=False; why='start'
    for t,st in enumerate(tr[:-1]):
        ad=dict(pol.action_dist(st.agentstate).items())
        if st.state in sp['absorbing'] or ad.get(st.action,0)<=0 or sp['T'][st.state,st.action].get(st.nextstate,0)<=0 or st.reward!=sp['R'][st.state,st.action,st.nextstate] \
           or sp['Ob'][st.action,st.nextstate].get(st.observation,0)<=0 or tr[t+1].state!=st.nextstate: ok=False; why='step'
        nag=pol.next_agentstate(st.agentstate, st.action, st.observation)
        same = np.allclose(np.asarray(nag[1] if isinstance(nag,Belief) else nag, dtype=float), np.asarray(st.nextagentstate[1] if isinstance(nag,Belief) else st.nextagentstate, dtype=float))
        same2 = np.allclose(np.asarray(tr[t+1].agentstate[1] if isinstance(nag,Belief) else tr[t+1].agentstate, dtype=float), np.asarray(st.nextagentstate[1] if isinstance(nag,Belief) else st.nextagentstate, dtype=float))
        if not (same and same2): ok=False; why='agentstate'
    nst=len(tr)-1; last=tr[-1].state
    if not ((last in sp['absorbing'] and nst<=cap) or nst==cap): ok=False; why='stop'
    if kind=='fsc':
        # reference node filter conditioning on action
        beta=ini.copy()
        for st in tr[:-1]:
            ref=beta@As; impl=np.array([dict(pol.action_dist(st.agentstate).items())[a] for a in pomdp.action_list])
            if not np.allclose(ref,impl,atol=1e-9): d7+=1; break
            ai=pomdp.action_list.index(st.action); oi=pomdp.observation_index[st.observation]
            w=beta*As[:,ai]; beta=(w/w.sum())@Ns[:,ai,oi]
    if not ok: bad+=1; print("BAD",base+i,kind,why)
print("pomdp rollout done",N,"bad",bad,"fsc-conditional mismatches (D7)",d7)

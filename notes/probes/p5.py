import random, warnings, sys, numpy as np
warnings.filterwarnings('ignore')
from msdm.core.mdp import QuickTabularMDP, FunctionalPolicy
from msdm.core.distributions import DictDistribution
import msdm.core.semimdp.semimdp as sm
from msdm.core.semimdp.option import Option, augment
from msdm.core.exceptions import AlgorithmException
exec(open('p1.py').read().split("def solve")[0].replace("import msdm.algorithms.lrtdp as lr","").replace("import msdm.algorithms.laostar as lao",""))
def to_mdp(spec):
    return QuickTabularMDP(next_state_dist=lambda s,a: DictDistribution(spec['T'][s,a]), reward=lambda s,a,ns: spec['R'][s,a,ns], actions=lambda s: list(spec['A'][s]),
        initial_state_dist=DictDistribution(spec['init']), is_absorbing=lambda s: s==spec['goal'], discount_rate=spec['gamma'])
class Opt(Option):
    def __init__(self, name, policy, term, max_steps): self.name=name; self.policy=policy; self.term=term; self.max_steps=max_steps; self.runs=[]
    def is_initial(self,s): return True
    def is_terminal(self,s): return s in self.term
    def run_on(self, mdp, initial_state, rng=random):
        try:
            r = super().run_on(mdp, initial_state, rng=rng); self.runs.append(('ok', r)); return r
        except AlgorithmException as e:
            self.runs.append(('raise', None)); raise
    def __hash__(self): return hash(self.name)
bad=0; N=int(sys.argv[1]); base=int(sys.argv[2]); raised=0; boundary=0
for i in range(N):
    rng=random.Random(base+i); spec=gen(rng); mdp=to_mdp(spec); g=spec['gamma']; goal=spec['goal']; n=spec['n']
    pol_tab={s:dict(zip(spec['A'][s], np.random.default_rng(rng.randrange(10**6)).dirichlet(np.ones(len(spec['A'][s]))).tolist())) for s in range(n+1)}
    term=set(rng.sample(range(n+1), rng.randint(1,min(3,n+1)))) | ({goal} if rng.random()<.7 else set())
    cap=rng.choice([1,2,3,5,1000])
    o=Opt('o%d'%i, FunctionalPolicy(lambda s: DictDistribution(pol_tab[s])), term, cap)
    nsim=rng.choice([1,3,8]); s=rng.randrange(n+1)
    smdp=sm.SemiMarkovDecisionProcess(mdp=mdp, options=[o], n_option_simulations=nsim, seed=5)
    sm.random=Proxy(random.Random(rng.random()), rng.choice('PUR'))
    ok=True; why=''
    try:
        d=smdp.next_state_transit_time_reward_dist(s,o)
        exc=False
    except AlgorithmException: exc=True; raised+=1
    except Exception as e:
        bad+=1; print("EXC",base+i,type(e).__name__,e); continue
    finally: sm.random=random
    emp={}
    for kind,r in o.runs:
        if kind!='ok': continue
        st=r.steps; path=[x['state'] for x in st]
        if path[0]!=s: ok=False; why='start'
        firstterm=next((k for k,x in enumerate(path) if x in term), None)
        if firstterm is None or firstterm!=len(path)-1: ok=False; why='not first terminal %r %r'%(path,term)
        if len(path)-1 >= cap: ok=False; why='ret at cap'
        if len(path)-1 == cap-2 or len(path)-1==cap-1: boundary+=1
        for t,x in enumerate(st[:-1]):
            if spec['T'][x['state'],x['action']].get(x['next_state'],0)<=0 or x['reward']!=spec['R'][x['state'],x['action'],x['next_state']] or pol_tab[x['state']].get(x['action'],0)<=0: ok=False; why='step'
        G=sum(x['reward']*g**t for t,x in enumerate(st[:-1]))
        emp[(path[-1], len(path)-1, G)] = emp.get((path[-1], len(path)-1, G),0)+1
    if not exc:
        if len(o.runs)!=nsim: ok=False; why='nsim %d'%len(o.runs)
        if abs(sum(d.values())-1)>1e-9: ok=False; why='norm'
        # compare with tolerance on reward key
        for (e,t,G),c in emp.items():
            match=[p for (e2,t2,G2),p in d.items() if e2==e and t2==t and abs(G2-G)<1e-9]
            if not match or abs(sum(match)-c/nsim)>1e-9: ok=False; why='emp %r %r'%(emp,dict(d))
        if len(d)!=len(emp): ok=False; why='extra keys'
    # primitive
    a=spec['A'][s][0]; d2=smdp.next_state_transit_time_reward_dist(s,a)
    ref={(t,1,spec['R'][s,a,t]):p for t,p in spec['T'][s,a].items() if p>0}
    if {k:v for k,v in d2.items() if v>0}!=ref: ok=False; why='prim %r %r'%(dict(d2),ref)
    if not ok: bad+=1; print("BAD",base+i,why)
print("semimdp done",N,"bad",bad,"raised",raised,"boundary",boundary)

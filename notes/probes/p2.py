# throwaway probe: TD fold + RMAX oracle with scripted rng
import random, warnings, sys, math, numpy as np
warnings.filterwarnings('ignore')
import msdm.algorithms.tdlearning as td
import msdm.algorithms.rmax as rm
exec(open('p1.py').read().split("bad=0; caps=0")[0].split("def solve")[0].replace("import msdm.algorithms.lrtdp as lr","").replace("import msdm.algorithms.laostar as lao",""))
from msdm.core.mdp import QuickTabularMDP
from msdm.core.distributions import DictDistribution
def to_mdp(spec):
    return QuickTabularMDP(next_state_dist=lambda s,a: DictDistribution(spec['T'][s,a]), reward=lambda s,a,ns: spec['R'][s,a,ns], actions=lambda s: list(spec['A'][s]),
        initial_state_dist=DictDistribution(spec['init']), is_absorbing=lambda s: s==spec['goal'], discount_rate=spec['gamma'])
class L(td.TDLearningEventListener):
    def __init__(self): self.steps=[]; self.eps=0
    def end_of_timestep(self, lv): self.steps.append((self.eps, lv['s'], lv['a'], lv['r'], lv['ns'], lv.get('na'), 
        {k:{s:dict(v) for s,v in lv[k].items()} for k in ('q1','q2') if k in lv}))
    def end_of_episode(self, lv): self.eps+=1
    def results(self): return self.steps
def close(a,b): return abs(a-b) <= 1e-9*(1+abs(a)+abs(b))
bad=0
N=int(sys.argv[1]); base=int(sys.argv[2])
for i in range(N):
    rng = random.Random(base+i); spec = gen(rng)
    if spec['gamma']==1.0 and rng.random()<.5: spec['gamma']=.9
    mdp = to_mdp(spec); g=spec['gamma']; goal=spec['goal']
    alpha = rng.choice([0,.1,.5,1.0]); eps_ = rng.choice([0,.1,.5,1.0]); temp = rng.choice([0.0,0.0,1.0,5.0]); q0 = rng.choice([0.0,-1.0,2.5])
    cls = rng.choice([td.QLearning, td.SARSA, td.ExpectedSARSA, td.DoubleQLearning]); mode=rng.choice('PUR')
    td.random = Proxy(random.Random(rng.random()), mode)
    try:
        res = cls(episodes=rng.randint(1,4), step_size=alpha, rand_choose=eps_, softmax_temp=temp, initial_q=q0, seed=1, event_listener_class=L).train_on(mdp)
    except Exception as e:
        bad+=1; print("EXC", base+i, cls.__name__, type(e).__name__, e); continue
    steps = res.event_listener_results
    def init(s): return {a: (0.0 if s==goal else q0) for a in spec['A'][s]}
    Q={}; Q2={}
    def get(Qt,s):
        if s not in Qt: Qt[s]=init(s)
        return Qt[s]
    ok=True; why=''
    prev=None
    for (ep,s,a,r,ns,na,snap) in steps:
        if s==goal or a not in spec['A'][s] or spec['T'][s,a].get(ns,0)<=0 or r!=spec['R'][s,a,ns]: ok=False; why='step'; break
        if prev is not None and prev[0]==ep and prev[1]!=s: ok=False; why='chain'; break
        if (prev is None or prev[0]!=ep) and spec['init'].get(s,0)<=0: ok=False; why='init'; break
        prev=(ep,ns)
        if cls is td.QLearning:
            q=get(Q,s); q[a] += alpha*(r + g*max(get(Q,ns).values()) - q[a])
        elif cls is td.SARSA:
            q=get(Q,s); q[a] += alpha*(r + g*get(Q,ns)[na] - q[a])
        elif cls is td.ExpectedSARSA:
            qn = get(Q,ns)
            if temp==0.0:
                m = max(qn.values()); am=[x for x in qn if qn[x]==m]; sm={x:(1/len(am) if x in am else 0) for x in qn}
            else:
                mx=max(v/temp for v in qn.values()); Z=sum(math.exp(v/temp-mx) for v in qn.values()); sm={x:math.exp(v/temp-mx)/Z for x,v in qn.items()}
            pi={x: eps_/len(qn) + (1-eps_)*sm[x] for x in qn}
            q=get(Q,s); q[a] += alpha*(r + g*sum(pi[x]*qn[x] for x in qn) - q[a])
        else:
            # existential over which table and tie-break
            cand=[]
            for (A_,B_) in ((Q,Q2),(Q2,Q)):
                qa = get(A_,ns); qb=get(B_,ns); get(A_,s); get(B_,s)
                m=max(qa.values())
                for x in qa:
                    if qa[x]==m:
                        cand.append((A_ is Q, get(A_,s)[a] + alpha*(r + g*qb[x] - get(A_,s)[a])))
            s1 = snap['q1'][s][a]; s2 = snap['q2'][s][a]
            hit=None
            for (isq1,val) in cand:
                if isq1 and close(val,s1) and close(get(Q2,s)[a], s2): hit=(True,val)
                if (not isq1) and close(val,s2) and close(get(Q,s)[a], s1): hit=(False,val)
            if hit is None: ok=False; why='dq'; break
            if hit[0]: Q[s][a]=hit[1]
            else: Q2[s][a]=hit[1]
    if ok:
        if cls is td.DoubleQLearning:
            ref = {s:{a:.5*get(Q,s)[a]+.5*get(Q2,s)[a] for a in spec['A'][s]} for s in set(Q)|set(Q2)}
        else: ref=Q
        got = {s:dict(v) for s,v in res.q_values.items()}
        for s in ref:
            for a in ref[s]:
                if s not in got or not close(got[s][a], ref[s][a]): ok=False; why='final %r %r %r %r'%(s,a,got.get(s),ref[s])
        for s in got:
            if s not in ref:
                if any(not close(v, init(s)[a]) for a,v in got[s].items()): ok=False; why='extra'
        # policy
        for s in range(spec['n']+1):
            d = dict(res.policy.action_dist(s).items())
            if s in ref:
                m=max(got[s].values()); am={a for a in got[s] if got[s][a]==m}
            else: am=set(spec['A'][s])
            if set(a for a,p in d.items() if p>0)!=am or any(not close(p,1/len(am)) for p in d.values()): ok=False; why='policy %r %r %r'%(s,d,am)
    if not ok: bad+=1; print("BAD", base+i, cls.__name__, why, spec['init'], q0)
print("TD done", N, "bad", bad)

# RMAX
bad=0
class L2(rm.RMAXEventListener):
    def __init__(self): self.steps=[]
    def end_of_timestep(self, lv): self.steps.append((lv['s'], lv['a'], lv['r'], lv['ns']))
    def end_of_episode(self, lv): pass
    def results(self): return self.steps
for i in range(N):
    rng = random.Random(base+i); spec = gen(rng)
    if spec['gamma']==1.0: spec['gamma']=.9
    # uniform action sets
    acts = spec['acts']
    for s in range(spec['n']+1):
        for a in acts:
            if (s,a) not in spec['T']:
                src = spec['A'][s][0]; spec['T'][s,a]=dict(spec['T'][s,src]); 
                for t in spec['T'][s,a]: spec['R'][s,a,t]=spec['R'][s,src,t]
        spec['A'][s]=list(acts)
    mdp = to_mdp(spec); g=spec['gamma']; goal=spec['goal']
    rmax = float(np.max(mdp.reward_matrix)); m = rng.randint(1,4); tol=rng.choice([1e-3,1e-5])
    rm.random = Proxy(random.Random(rng.random()), rng.choice('PUR'))
    try:
        res = rm.RMAX(episodes=rng.randint(1,6), rmax=rmax, num_transition_samples=m, bellman_convergence_diff=tol, seed=1, event_listener_class=L2).train_on(mdp)
    except Exception as e:
        bad+=1; print("RMAX EXC", base+i, type(e).__name__, e); continue
    steps=res.event_listener_results; Qr=res.q_values; opt = rmax/(1-g)
    cnt={}; Rsum={}; Tc={}
    ok=True; why=''
    for (s,a,r,ns) in steps:
        if s==goal or spec['T'][s,a].get(ns,0)<=0 or r!=spec['R'][s,a,ns]: ok=False; why='step'
        if cnt.get((s,a),0) < m:
            cnt[s,a]=cnt.get((s,a),0)+1; Rsum[s,a]=Rsum.get((s,a),0)+r; Tc.setdefault((s,a),{}); Tc[s,a][ns]=Tc[s,a].get(ns,0)+1
    for s in Qr:
        for a in Qr[s]:
            v=Qr[s][a]
            if v > opt*(1+1e-12)+1e-12: ok=False; why='exceeds'
            if cnt.get((s,a),0) < m:
                if v != opt: ok=False; why='not optimistic %r %r'%(v,opt)
            else:
                tgt = Rsum[s,a]/m + g*sum(c/m*max(Qr[t].values()) for t,c in Tc[s,a].items())
                if abs(v-tgt) >= tol + 1e-12: ok=False; why='bellman %r'%(abs(v-tgt),)
        d = dict(res.policy.action_dist(s).items()); mx=max(Qr[s].values()); am={a for a in Qr[s] if Qr[s][a]==mx}
        if set(a for a,p in d.items() if p>0)!=am: ok=False; why='policy'
    if not ok: bad+=1; print("RMAX BAD", base+i, why)
print("RMAX done", N, "bad", bad)

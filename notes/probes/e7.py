import random, numpy as np, hashlib, sys, json, warnings
warnings.filterwarnings('ignore')
from msdm.domains import GridWorld
from msdm.algorithms.rmax import RMAX
from msdm.algorithms.laostar import LAOStar
from msdm.algorithms.lrtdp import LRTDP
from msdm.algorithms.tdlearning import QLearning
from msdm.domains.gridmdp.windygridworld import WindyGridWorld
from msdm.domains.cliffwalking import CliffWalking
def dig(x): return hashlib.sha1(repr(x).encode()).hexdigest()[:10]
def key(s): return tuple(sorted(s.items())) if hasattr(s,'items') else s
gw = GridWorld(tile_array=["s..", "..g"], feature_rewards={'g': 1}, step_cost=0, success_prob=.8, discount_rate=.9)
out={}
out['action_list'] = dig([key(a) for a in gw.action_list])
r = RMAX(episodes=3, seed=1, rmax=1.0, num_transition_samples=2).train_on(gw)
out['rmax'] = dig(sorted((key(s), sorted((key(a),v) for a,v in av.items())) for s,av in r.q_values.items()))
out['rmax_rew'] = r.event_listener_results.episode_rewards
gw2 = GridWorld(tile_array=["s..", "..g"], step_cost=-1, success_prob=.8, discount_rate=.95)
r = LAOStar(heuristic=lambda s:0, seed=3).plan_on(gw2)
out['lao'] = dig((r.initial_value, sorted((key(s),v) for s,v in r.state_value_map.items()), sorted((key(s), key(n.optimal_action), n.expandedorder) for s,n in r.explicit_graph.states_to_nodes.items())))
r = LRTDP(heuristic=lambda s:0, seed=3, randomize_action_order=True).plan_on(gw2)
out['lrtdp'] = dig((r.initial_value, sorted((key(s),v) for s,v in r.V.items())))
r = QLearning(episodes=5, seed=3, rand_choose=.2).train_on(gw2)
out['q'] = dig(sorted((key(s), sorted((key(a),v) for a,v in av.items())) for s,av in r.q_values.items()))
print(json.dumps(out))

import random, warnings, sys, numpy as np
warnings.filterwarnings('ignore')
from msdm.core.mdp import QuickTabularMDP, FunctionalPolicy
from msdm.core.mdp.policy import Policy
from msdm.core.distributions import DictDistribution
import msdm.core.semimdp.semimdp as sm
from msdm.core.semimdp.option import Option, augment
from msdm.core.exceptions import AlgorithmException
exec(open('p1.py').read().split("def solve")[0].replace("import msdm.algorithms.lrtdp as lr","").replace("import msdm.algorithms.laostar as lao",""))
def to_mdp(spec):
    return QuickTabularMDP(next_state_dist=lambda s,a: DictDistribution(spec['T'][s,a]), reward=lambda s,a,ns: spec['R'][s,a,ns], actions=lambda s: list(spec['A'][s]),
        initial_state_dist=DictDistribution(spec['init']), is_absorbing=lambda s: s==spec['goal'], discount_rate=spec['gamma'])
bad=0; N=int(sys.argv[1]); base=int(sys.argv[2])
class RecPolicy(FunctionalPolicy):
    def __init__(self, f): super().__init__(f); self.runs=[]
    def run_on(self, *a, **k):
        r = super().run_on(*a, **k); self.runs.append(r); return r
for i in range(N):
    rng=random.Random(base+i); spec=gen(rng); mdp=to_mdp(spec); g=spec['gamma']; goal=spec['goal']
    pol_tab={s:dict(zip(spec['A'][s], np.random.default_rng(rng.randrange(10**6)).dirichlet(np.ones(len(spec['A'][s]))).tolist())) for s in range(spec['n']+1)}
    if rng.random()<.3:
        for s in pol_tab: pol_tab[s] = {spec['A'][s][0]:1.0}
    pol=RecPolicy(lambda s: DictDistribution(pol_tab[s]))
    cap=rng.choice([0,1,2,5,50]); start = rng.choice([None]+list(range(spec['n']+1)))
    sr=SimRandom(random.Random(rng.random()), rng.choice('PUR'))
    tr=pol.run_on(mdp, initial_state=start, max_steps=cap, rng=sr)
    steps=tr.steps; ok=True; why=''
    s0=steps[0]['state']
    if start is not None and s0!=start: ok=False; why='start'
    if start is None and spec['init'].get(s0,0)<=0: ok=False; why='init'
    for t,st in enumerate(steps[:-1]):
        s,a,ns,r=st['state'],st['action'],st['next_state'],st['reward']
        if s==goal or pol_tab[s].get(a,0)<=0 or spec['T'][s,a].get(ns,0)<=0 or r!=spec['R'][s,a,ns] or st['timestep']!=t or steps[t+1]['state']!=ns: ok=False; why='step %d'%t
    last=steps[-1]['state']; nst=len(steps)-1
    if not ((last==goal and nst<=cap) or (nst==cap)): ok=False; why='stop'
    if any(st['state']==goal for st in steps[:-1]): ok=False; why='past goal'
    # returns
    rets=Policy.calc_returns(tr.reward, g); G=0; ref=[]
    for r in reversed(tr.reward): G=r+g*G; ref.append(G)
    ref=ref[::-1]
    if not np.allclose(rets, ref, rtol=1e-12, atol=1e-12): ok=False; why='returns'
    # evaluate_on
    pol.runs=[]; nsim=rng.choice([1,3,10])
    ev=pol.evaluate_on(mdp, n_simulations=nsim, max_steps=cap, rng=sr)
    if len(pol.runs)!=nsim: ok=False; why='nruns'
    sv={}; occ={}; av={}; iv=[]
    for run in pol.runs:
        rw=run.reward; Gs=[]; G=0
        for r in reversed(rw): G=r+g*G; Gs.append(G)
        Gs=Gs[::-1]; iv.append(Gs[0])
        for Gt,st in zip(Gs,run.steps):
            sv.setdefault(st['state'],[]).append(Gt); av.setdefault((st['state'],st.get('action')),[]).append(Gt)
    if abs(ev.initial_value-np.mean(iv))>1e-9: ok=False; why='iv'
    for s,l in sv.items():
        if abs(ev.state_value[s]-np.mean(l))>1e-9 or abs(ev.state_occupancy[s]-len(l)/nsim)>1e-9: ok=False; why='sv %r'%s
    for (s,a),l in av.items():
        if abs(ev.action_value[s][a]-np.mean(l))>1e-9: ok=False; why='av'
    if set(ev.state_value.keys())!=set(sv): ok=False; why='keys'
    if not ok: bad+=1; print("BAD",base+i,why,cap,start)
print("rollout done",N,"bad",bad)

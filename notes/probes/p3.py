import random, warnings, sys, heapq, collections
warnings.filterwarnings('ignore')
import msdm.algorithms.search as se
from msdm.core.mdp import QuickTabularMDP
from msdm.core.distributions import DictDistribution, UniformDistribution, DeterministicDistribution
exec(open('p1.py').read().split("def gen(rng)")[0].replace("import msdm.algorithms.lrtdp as lr","").replace("import msdm.algorithms.laostar as lao",""))
def gen(rng):
    n=rng.randint(1,8); goals=set(rng.sample(range(n), rng.randint(0,min(2,n))))
    acts=['a%d'%i for i in range(rng.randint(1,3))]
    E={}
    for s in range(n):
        for a in rng.sample(acts, rng.randint(1,len(acts))):
            E[s,a]=(rng.randrange(n), rng.choice([0,1,1,2,3]))
    return n,goals,acts,E,rng.randrange(n)
def dijkstra(n,goals,E,src, unit=False):
    d={src:0}; pq=[(0,src)]
    while pq:
        c,s=heapq.heappop(pq)
        if c>d[s]: continue
        if s in goals: continue   # absorbing not expanded
        for (s_,a),(t,w) in E.items():
            if s_==s:
                w=1 if unit else w
                if c+w < d.get(t,1e18): d[t]=c+w; heapq.heappush(pq,(c+w,t))
    return d
def togo(n,goals,E):
    # exact cost-to-go via reverse relaxations
    h={s:(0 if s in goals else float('inf')) for s in range(n)}
    for _ in range(n+1):
        for (s,a),(t,w) in E.items():
            if s not in goals and w+h[t]<h[s]: h[s]=w+h[t]
    return h
bad=0; N=int(sys.argv[1]); base=int(sys.argv[2])
for i in range(N):
    rng=random.Random(base+i); n,goals,acts,E,src=gen(rng)
    rep=rng.choice(['ns','det','uni'])
    kw=dict(reward=lambda s,a,ns: -float(E[s,a][1]), actions=lambda s: [a for a in acts if (s,a) in E], is_absorbing=lambda s: s in goals)
    if rep=='ns': m=QuickTabularMDP(next_state=lambda s,a:E[s,a][0], initial_state=src, **kw)
    elif rep=='det': m=QuickTabularMDP(next_state_dist=lambda s,a:DeterministicDistribution(E[s,a][0]), initial_state_dist=DeterministicDistribution(src), **kw)
    else: m=QuickTabularMDP(next_state_dist=lambda s,a:UniformDistribution([E[s,a][0]]), initial_state_dist=UniformDistribution([src]), **kw)
    h=togo(n,goals,E); hk=rng.choice(['zero','exact','half'])
    hv={'zero':lambda s:0,'exact':lambda s:-h[s],'half':lambda s:-0.5*h[s]}[hk]
    tb=rng.choice(['lifo','fifo','random']); rao=rng.random()<.5
    seed = 1 if (tb=='random' or rao) else None
    se.random=Proxy(random.Random(rng.random()),'U')
    d=dijkstra(n,goals,E,src); best=min([d[g] for g in goals if g in d], default=None)
    du=dijkstra(n,goals,E,src,unit=True); bestu=min([du[g] for g in goals if g in du], default=None)
    for alg in ('astar','bfs'):
        try:
            if alg=='astar': r=se.AStarSearch(heuristic_value=hv, seed=seed, randomize_action_order=rao, tie_breaking_strategy=tb).plan_on(m)
            else: r=se.BreadthFirstSearch(seed=seed, randomize_action_order=rao).plan_on(m)
        except Exception as e:
            bad+=1; print("EXC",base+i,alg,hk,tb,type(e).__name__,e); continue
        if (best is None)!=(r is None): bad+=1; print("BAD none",base+i,alg); continue
        if r is None: continue
        p=r.path; ok = p[0]==src and p[-1] in goals and all(x not in goals for x in p[:-1])
        cost=0
        for x,y in zip(p,p[1:]):
            a=r.policy.action_dist(x).sample()
            ok = ok and (x,a) in E and E[x,a][0]==y; cost+=E[x,a][1] if (x,a) in E else 0
        if alg=='astar': ok = ok and cost==best and r.path_value==best
        else: ok = ok and len(p)-1==bestu
        if not ok: bad+=1; print("BAD",base+i,alg,hk,tb,p,cost,best,bestu,getattr(r,'path_value',None))
print("search done",N,"bad",bad)

# throwaway probe: random proper MDPs, LAO*/LRTDP with scripted rng, compare with reference
import random, warnings, sys, numpy as np
warnings.filterwarnings('ignore')
import msdm.algorithms.lrtdp as lr
import msdm.algorithms.laostar as lao
from msdm.core.mdp import QuickTabularMDP
from msdm.core.distributions import DictDistribution

class SimRandom(random.Random):
    def __init__(self, sched, mode):
        super().__init__(0); self.sched = sched; self.mode=mode; self.n=0
    def random(self):
        self.n+=1
        if self.n > 200000: raise RuntimeError("cap")
        return self.sched.random()
    def getrandbits(self, k): return self.sched.getrandbits(k)
    def choices(self, population, weights=None, *, cum_weights=None, k=1):
        self.n+=1
        if self.n > 200000: raise RuntimeError("cap")
        pop = list(population); w = list(weights)
        legal = [i for i,x in enumerate(w) if x>0]
        if self.mode=='P': return self.sched.choices(pop, weights=w, k=k)
        if self.mode=='R' and self.sched.random()<.5:
            i = min(legal, key=lambda i: w[i]); return [pop[i]]
        return [pop[legal[self.sched.randrange(len(legal))]]]
    def choice(self, seq): return seq[self.sched.randrange(len(seq))]
    def shuffle(self, x):
        perm = list(range(len(x))); self.sched.shuffle(perm); x[:] = [x[i] for i in perm]
class Proxy:
    def __init__(self, sched, mode): self.sched=sched; self.mode=mode
    def Random(self, seed=None): return SimRandom(self.sched, self.mode)
    def __getattr__(self, n): raise AssertionError("global random used: "+n)

def gen(rng):
    n = rng.randint(1,6); goal = n
    nA = rng.randint(1,3); acts = ['a%d'%i for i in range(nA)]
    gamma = rng.choice([.5,.9,.95,1.0])
    level = list(range(n)); rng.shuffle(level)   # level[s] : lower is closer; goal has -1
    T={}; R={}; A={}
    for s in range(n):
        A[s] = sorted(rng.sample(acts, rng.randint(1,nA)))
        for a in A[s]:
            lower = [t for t in range(n) if level[t] < level[s]] + [goal]
            succ = {rng.choice(lower)}
            for _ in range(rng.randint(0,2)): succ.add(rng.randint(0,n))
            succ = sorted(succ)
            k = len(succ); cuts = sorted(rng.sample(range(1,8), k-1)) if k>1 else []
            ps = [ (b-a)/8 for a,b in zip([0]+cuts, cuts+[8])]
            T[s,a] = dict(zip(succ, ps))
            for t in succ: R[s,a,t] = -rng.choice([0,1,1,2,3])/1.0 if gamma==1.0 else rng.choice([-2,-1,-1,0,1])/1.0
    A[goal] = [acts[0]]; T[goal,acts[0]] = {goal:1.0}; R[goal,acts[0],goal]=0.0
    k = rng.randint(1,min(3,n+1)); init_states = rng.sample(range(n+1), k)
    cuts = sorted(rng.sample(range(1,8), k-1)) if k>1 else []
    init = dict(zip(init_states, [ (b-a)/8 for a,b in zip([0]+cuts, cuts+[8])]))
    return dict(n=n, goal=goal, acts=acts, gamma=gamma, T=T, R=R, A=A, init=init)

def solve(spec):
    n=spec['n']; g=spec['gamma']; V=np.zeros(n+1)
    for it in range(100000):
        nV = V.copy()
        for s in range(n):
            nV[s] = max(sum(p*(spec['R'][s,a,t] + g*(V[t] if t!=spec['goal'] else 0)) for t,p in spec['T'][s,a].items()) for a in spec['A'][s])
        if np.abs(nV-V).max() < 1e-13: break
        V=nV
    return V
def evaluate(spec, pol):  # pol: s -> {a:p}
    n=spec['n']; g=spec['gamma']; P=np.zeros((n+1,n+1)); r=np.zeros(n+1)
    for s in range(n):
        for a,pa in pol(s).items():
            assert a in spec['A'][s], ("unavailable action", s, a)
            for t,p in spec['T'][s,a].items():
                r[s]+=pa*p*spec['R'][s,a,t]
                if t!=spec['goal']: P[s,t]+=pa*p
    V = np.linalg.solve(np.eye(n+1)-g*P, r)
    N = np.linalg.solve(np.eye(n+1)-P, np.concatenate([np.ones(n),[0]]))
    return V, N
def to_mdp(spec):
    return QuickTabularMDP(next_state_dist=lambda s,a: DictDistribution(spec['T'][s,a]), reward=lambda s,a,ns: spec['R'][s,a,ns], actions=lambda s: list(spec['A'][s]),
        initial_state_dist=DictDistribution(spec['init']), is_absorbing=lambda s: s==spec['goal'], discount_rate=spec['gamma'])

bad=0; caps=0
N=int(sys.argv[1]); base=int(sys.argv[2])
for i in range(N):
    rng = random.Random(base+i)
    spec = gen(rng); Vs = solve(spec); mdp = to_mdp(spec)
    hk = rng.choice(['const','exact','slack'])
    ub = max(0.0, max(spec['R'].values()))/(1-spec['gamma']) if spec['gamma']<1 else 0.0
    slack = rng.choice([0.5, 2.0])
    h = {'const': lambda s: ub, 'exact': lambda s: float(Vs[s]), 'slack': lambda s: float(Vs[s])+ (slack if s!=spec['goal'] else 0)}[hk]
    mode = rng.choice('PUR')
    v0 = sum(p*Vs[s] for s,p in spec['init'].items())
    # LAO*
    lao.random = Proxy(random.Random(rng.random()), mode)
    try:
        r = lao.LAOStar(heuristic=h, seed=1, randomize_action_order=rng.random()<.7, randomize_nextstate_order=rng.random()<.7).plan_on(mdp)
        ok = r.converged and abs(r.initial_value - v0) < 1e-6*(1+abs(v0)) and all(v >= Vs[s]-1e-6 for s,v in r.state_value_map.items())
        Vp, _ = evaluate(spec, lambda s: dict(r.policy.action_dist(s).items()))
        vp0 = sum(p*Vp[s] for s,p in spec['init'].items())
        ok = ok and abs(vp0 - v0) < 1e-6*(1+abs(v0))
        if not ok: bad+=1; print("LAO BAD", base+i, hk, mode, r.converged, r.initial_value, v0, vp0)
    except Exception as e:
        bad+=1; print("LAO EXC", base+i, hk, mode, type(e).__name__, e)
    # LRTDP
    eps = rng.choice([1e-2,1e-3,1e-5])
    lr.random = Proxy(random.Random(rng.random()), mode)
    try:
        r = lr.LRTDP(heuristic=h, seed=1, bellman_error_margin=eps, randomize_action_order=rng.random()<.5, iterations=100000).plan_on(mdp)
        solved = all(r.solved[s] for s in spec['init'])
        Vp, Np = evaluate(spec, lambda s: dict(r.policy.action_dist(s).items()))
        vp0 = sum(p*Vp[s] for s,p in spec['init'].items()); n0 = sum(p*Np[s] for s,p in spec['init'].items())
        ub_ok = all(v >= Vs[s]-1e-9 for s,v in r.V.items())
        gap = r.initial_value - v0
        ok = solved and ub_ok and -1e-9 <= gap <= eps*n0+1e-9 and vp0 >= v0 - eps*n0 - 1e-9
        ok = ok and all(abs(r.V[s0]-Vs[s0]) <= eps*Np[s0]+1e-9 for s0 in spec['init'])
        if not ok: bad+=1; print("LRTDP BAD", base+i, hk, mode, eps, solved, ub_ok, gap, eps*n0, vp0, v0)
    except RuntimeError as e:
        if str(e)=='cap': caps+=1
        else: bad+=1; print("LRTDP EXC", base+i, e)
    except Exception as e:
        bad+=1; print("LRTDP EXC", base+i, hk, mode, type(e).__name__, e)
print("done", N, "bad", bad, "caps", caps)

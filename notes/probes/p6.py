import random, numpy as np, torch, warnings, hashlib
warnings.filterwarnings('ignore')
from msdm.core.mdp import QuickTabularMDP, FunctionalPolicy
from msdm.core.distributions import DictDistribution, ImplicitDistribution
from msdm.algorithms.laostar import LAOStar
from msdm.algorithms.lrtdp import LRTDP
from msdm.algorithms.search import AStarSearch, BreadthFirstSearch
from msdm.algorithms.tdlearning import QLearning, SARSA, ExpectedSARSA, DoubleQLearning
from msdm.algorithms.rmax import RMAX
from msdm.algorithms.fscboundedpolicyiteration import FSCBoundedPolicyIteration
from msdm.algorithms.fscgradientascent import FSCGradientAscent
from msdm.core.semimdp.semimdp import SemiMarkovDecisionProcess
from msdm.core.semimdp.option import Option
from msdm.domains.tiger import Tiger
from msdm.domains import GridWorld
from msdm.core.pomdp.finitestatecontroller import StochasticFiniteStateController
def snap(): return (random.getstate(), hashlib.sha1(np.random.get_state()[1].tobytes()).hexdigest(), np.random.get_state()[2], hashlib.sha1(torch.random.get_rng_state().numpy().tobytes()).hexdigest())
gw = GridWorld(tile_array=["s..", "..g"], feature_rewards={'g': 1}, step_cost=0, success_prob=.8, discount_rate=.9)
gw2 = GridWorld(tile_array=["s..", "..g"], step_cost=-1, success_prob=.8, discount_rate=.95)
t = Tiger(coherence=.85, discount_rate=.8)
pol = FunctionalPolicy(lambda s: DictDistribution.uniform(gw.actions(s)))
class Opt(Option):
    def __init__(self): self.name='o'; self.policy=pol; self.max_steps=1000
    def is_initial(self,s): return True
    def is_terminal(self,s): return gw2.is_absorbing(s)
    def __hash__(self): return hash(self.name)
def impl():
    d = ImplicitDistribution(lambda rng: rng.random()<.3, n_samples=20, _seed=4)
    return (sorted(d.items()), d.expectation(float), d.sample())
fsc = StochasticFiniteStateController(t, np.array([[.2,.3,.5]]), np.ones((1,3,2,1)), np.array([1.]))
jobs = {
 'lao': lambda: LAOStar(heuristic=lambda s:0, seed=3).plan_on(gw2).initial_value,
 'lrtdp': lambda: LRTDP(heuristic=lambda s:0, seed=3, randomize_action_order=True).plan_on(gw2).initial_value,
 'astar': lambda: AStarSearch(seed=3, tie_breaking_strategy='random', randomize_action_order=True).plan_on(GridWorld(tile_array=["s..", "..g"])).path,
 'bfs': lambda: BreadthFirstSearch(seed=3, randomize_action_order=True).plan_on(GridWorld(tile_array=["s..", "..g"])).path,
 'q': lambda: QLearning(episodes=3, seed=3).train_on(gw2).event_listener_results.episode_rewards,
 'sarsa': lambda: SARSA(episodes=3, seed=3).train_on(gw2).event_listener_results.episode_rewards,
 'esarsa': lambda: ExpectedSARSA(episodes=3, seed=3).train_on(gw2).event_listener_results.episode_rewards,
 'dq': lambda: DoubleQLearning(episodes=3, seed=3).train_on(gw2).event_listener_results.episode_rewards,
 'rmax': lambda: RMAX(episodes=3, seed=3, rmax=1.0, num_transition_samples=2).train_on(gw).event_listener_results.episode_rewards,
 'bpi': lambda: float(FSCBoundedPolicyIteration(controller_state_count=2, iterations=3, seed=3).train_on(t).value),
 'ga': lambda: float(FSCGradientAscent(controller_state_count=2, iterations=3, seed=3).train_on(t).value.expected_value),
 'semimdp': lambda: sorted(SemiMarkovDecisionProcess(mdp=gw2, options=[o], n_option_simulations=5, seed=3).next_state_transit_time_dist(gw2.initial_state_dist().support[0], o).items(), key=repr),
 'implicit': impl,
 'rollout_mdp': lambda: [tuple(s.items()) for s in pol.run_on(gw2, rng=random.Random(3)).steps],
 'evaluate_mdp': lambda: pol.evaluate_on(gw2, n_simulations=3, max_steps=20, rng=random.Random(3)).initial_value,
 'rollout_pomdp': lambda: fsc.run_on(t, max_steps=5, rng=random.Random(3)),
}
o = Opt()
for name, f in jobs.items():
    res=[]; dist=False
    for g in (1,2):
        random.seed(g); np.random.seed(g); torch.manual_seed(g)
        before = snap(); r = f(); after = snap()
        res.append(repr(r)); dist |= (before!=after)
    print("%-14s same_result=%s disturbed_globals=%s" % (name, res[0]==res[1], dist))

"""Child of the C13 cross-process phase: runs scenarios in this interpreter (its
PYTHONHASHSEED is set by the parent) with the unpatched library and prints the
canonical results.  Input: JSON on stdin {"scenarios": [...]}."""
import os
import sys
import json
import hashlib
import warnings

VERIF = os.path.dirname(os.path.dirname(os.path.abspath(__file__)))
sys.path.insert(0, VERIF)
sys.path.insert(0, os.environ.get('MSDM_VERIF_REPO', '/repo'))
warnings.filterwarnings('ignore')


def rnd(x):
    if isinstance(x, float):
        return float(f"{x:.9g}")
    if isinstance(x, str):
        try:
            # canon() writes floats as repr strings
            if any(c in x for c in '.einf') and x.replace('-', '').replace('+', '').replace('.', '').replace('e', '').replace('inf', '').replace('nan', '').isdigit() or x in ('inf', '-inf', 'nan'):
                return float(f"{float(x):.9g}")
        except ValueError:
            pass
        return x
    if isinstance(x, list):
        return [rnd(v) for v in x]
    if isinstance(x, dict):
        return {k: rnd(v) for k, v in x.items()}
    return x


def main():
    payload = json.load(sys.stdin)
    import random
    import numpy as np
    import torch
    torch.set_num_threads(1)
    from sim import scenarios as S
    from sim.ctx import canon
    out = {}
    pre = payload.get('pre') or {}
    for j, sc in enumerate(payload['scenarios']):
        if str(j) in pre:
            # process history: an equal-keyed twin problem is run first in this interpreter
            try:
                tw = pre[str(j)]
                S.run_component(tw, S.build_problem(tw['problem'], None), S.make_algo(tw, S.Env()), S.Env())
            except Exception:
                pass
        random.seed(12345)
        np.random.seed(12345)
        torch.manual_seed(12345)
        try:
            problem = S.build_problem(sc['problem'], None)
            env = S.Env()
            algo = S.make_algo(sc, env)
            res = dict(result=S.run_component(sc, problem, algo, env))
        except Exception as e:
            res = dict(exception=type(e).__name__, message=str(e)[:200])
        c = rnd(canon(res))
        out[str(j)] = dict(digest=hashlib.sha256(json.dumps(c, sort_keys=True).encode()).hexdigest()[:16], result=c)
    sys.stdout.write(json.dumps(out) + "\n")


if __name__ == '__main__':
    main()

"""C03 - LAO* with an admissible heuristic returns an optimal closed policy."""
import numpy as np

from sim.core import Violation, Inconclusive, InjectedAbort, RandomProxy, patched_random, close6
from sim.models import nested_variant_spec, rare_catastrophe_spec, gen_mdp_spec, MDPView, make_mdp, sibling_mdp_spec
from sim.refsolve import optimal_values, evaluate
from sim.heur import gen_heuristic, build_heuristic
from sim.ctx import RunCtx, make_scheduler, gen_sched, construct
from sim import shrink as shr

PROP = 'C03'
QUICK_RUNS = 70000
THOROUGH_RUNS = 1000000
QUICK_WALL = 110
THOROUGH_WALL = 1500
CORPUS_VARIANTS = True      # past findings are replayed under every key kind and action relabelling
CHUNK = 25
RULE = ("one run = one generated table MDP (discounted with any reward signs and structure, or undiscounted proper) x admissible "
        "heuristic (constant bound, exact, exact+slack, per-state noisy slack, arbitrary values at absorbing states) x ordering options, "
        "the scheduler supplying every sort key LAO* draws, i.e. the order of initial states, of each node's actions and of "
        "successors (random, increasing, decreasing, constant and threshold-straddling key sequences); distinct = distinct "
        "decision-log digest; non-trivial = >=1 decision and >=1 oracle clause")
REAL = ["msdm.algorithms.laostar (LAOStar, ExplicitStateGraph, SolutionGraph, unmodified)", "msdm QuickTabularMDP wrapper, DictDistribution"]
STUB = ["table MDP behind msdm's model interface", "random.Random stream (SimRandom)", "reference value iteration + exact policy evaluation"]
ASSUMPTIONS = ["mostly <= 7 states, 4% 10-20, 0.3% chains of 120-180 states; tolerance 1e-6 relative (plus 1e-11 of the problem's value scale) between LAO*'s linear solves and the reference", "every state offers at least one action (C01's domain)",
               "max_lao_star_iterations=10^4: hitting it on these models counts as failing to report convergence"]
from sim.models import SEAM_RANGES  # noqa: E402
ASSUMPTIONS = ASSUMPTIONS + [SEAM_RANGES]
TOL = 1e-6


def _size(rng):
    # mostly small models (<= 6 non-absorbing states); a few per cent are larger
    return dict(min_states=10, max_states=20, max_actions=4) if rng.random() < 0.04 else {}


def _long_chain_spec(rng):
    """A discounted chain of 120-180 states: LAO* needs more than 100 expansions (what its default inner-iteration count
    happens to be) to close a solution."""
    n = rng.randint(120, 180)
    trans = []
    for i in range(n):
        trans.append([i, 0, [[i, 2, -1.0], [i + 1, 6, -1.0]]])
        trans.append([i, 1, sorted([[max(0, i - 1), 4, -0.5], [i + 1, 4, -0.5]])])
    trans.append([n, 0, [[n, 8, 0.0]]])
    return dict(kind=rng.choice(('int', 'str', 'negint')), n=n, absorbing=[n], nA=2, gamma=0.95, trans=trans, init=[[0, 8]], proper=True)


def preload():
    import msdm.algorithms.laostar  # noqa


def gen_case(rng, tier, idx):
    big = rng.choice((None, None, None, None, (-10.0, -20.0, -40.0, -5.0, -60.0), (-25.0, 30.0, -50.0, 10.0), (0.0,)))     # large magnitudes and all-zero rewards too
    if rng.random() < 0.3:
        spec = gen_mdp_spec(rng, extreme=True, huge=True, leftover_abs=rng.random() < 0.12, **_size(rng), proper=True, discounts=(1.0,), rewards=big or rng.choice((None, (-2.0, -1.0, -1.0, 0.0, 1.0, 0.5))))
    else:
        spec = gen_mdp_spec(rng, extreme=True, huge=True, leftover_abs=rng.random() < 0.12, **_size(rng), proper=rng.random() < 0.5, discounts=(0.999,) if rng.random() < 0.02 else (0.5, 0.8, 0.9, 0.95, 0.99), rewards=big, uniform_actions=rng.random() < 0.25)
    h = gen_heuristic(rng)
    h['at_abs'] = abs(h['at_abs'])       # C03's heuristics never under-estimate, absorbing states (worth 0) included
    cfg = dict(heur=h, rao=rng.random() < 0.7, rno=rng.random() < 0.7, seed=rng.choice((0, 1, 2, 77, None)),
               reuse=rng.randrange(1000) if rng.random() < 0.15 else None, alias=rng.choice(('fresh', 'fresh', 'cached', 'shared', 'tuple')), cap_exact=rng.random() < 0.3)
    if rng.random() < 0.1:
        cfg.update(nest=rng.randrange(1000), cap_exact=False)       # (the F7 replay re-uses the decision log of one uninterrupted run)
    if rng.random() < 0.01:
        # a 1e-9 branch into a pit that costs 1e10 to leave: a successor can be nearly impossible and still decide the optimum
        spec = rare_catastrophe_spec(rng)
        cfg['reuse'] = None
    if rng.random() < 0.003:
        spec = _long_chain_spec(rng)
        cfg.update(reuse=None, nest=None, cap_exact=False)
        cfg['heur']['kind'] = rng.choice(('zero', 'const'))
    plain = idx % 4 == 0
    sched = gen_sched(rng, ('P',) if plain else ('P', 'X', 'X'), budget_choices=(None,), coop=False, cap=200000)
    return dict(spec=spec, cfg=cfg, sched=sched)


def execute(case, script=None):
    import msdm.algorithms.laostar as lao
    view = MDPView(case['spec'])
    ctx = RunCtx(PROP, view)
    ctx.declare_probes('listener_events', 'absorbing_initial_state', 'multi_initial',
                       'undiscounted', 'tie_between_actions', 'nonzero_heuristic_at_absorbing', 'planner_reused', 'iteration_cap_exact', 'rerun_after_abort', 'nested_run', 'constructed_by_position', 'chain_of_more_than_100_states')
    sched = make_scheduler(case, script, ctx)
    try:
        return _execute(lao, view, case['cfg'], ctx, sched)
    except (Violation, Inconclusive) as e:
        raise ctx.attach_partial(e)


def _execute(lao, view, cfg, ctx, sched):
    mdp = make_mdp(view, ctx, alias=cfg.get('alias', 'fresh'))
    sk, ak, sid, aid = view.sk, view.ak, view.sid, view.aid
    Vs, Qs = optimal_values(view)
    htab = build_heuristic(cfg['heur'], view, Vs)
    if any(htab[s] != 0 for s in view.absorbing):
        ctx.probe('nonzero_heuristic_at_absorbing')
    if view.gamma == 1.0:
        ctx.probe('undiscounted')
    if view.n > 100:
        ctx.probe('chain_of_more_than_100_states')
    if len(view.init) > 1:
        ctx.probe('multi_initial')
    if any(s in view.absorbing for s in view.init):
        ctx.probe('absorbing_initial_state')
    for s in range(view.N):
        if s not in view.absorbing:
            q = sorted(Qs[s][a] for a in view.A[s])
            if len(q) > 1 and abs(q[-1] - q[-2]) < 1e-12:
                ctx.probe('tie_between_actions')
    v0 = sum(p * Vs[s] for s, p in view.init.items())
    state = dict(n_expanded=-1, it=0, main=True)

    # tolerances are relative to the value in question AND to the scale of the problem's values: LAO*'s linear solves (and the
    # reference's) carry an error of ~1e-14 of the largest value in the system, which at a state worth 0 among values of
    # 1e9 is 1e-5
    vscale = max([abs(float(v)) for v in Vs] + [abs(float(x)) for x in view.R.values()] + [0.0]) / (1 - view.gamma if view.gamma < 1 else 1.0)

    def lb(s):
        return Vs[s] - TOL * (1 + abs(Vs[s])) - 1e-11 * vscale

    class L(lao.LAOStarEventListener):
        def main_lao_star_loop(self, lv):
            if not state['main']:
                return
            ctx.probe('listener_events')
            state['it'] += 1
            try:
                eg = lv['explicit_graph']
                nodes = [(sid[s], float(n['value']), n) for s, n in eg.states_to_nodes.items()]
                nexp = eg.n_expanded
            except Exception:
                return
            for s, v, n in nodes:
                ctx.check(v >= lb(s), 'upper-bound-during', lambda: f"iteration {state['it']}: value {v!r} of state {s} fell below its optimal value {Vs[s]!r}")
                if n['expanded']:
                    for a, nss in n['action_nextstates'].items():
                        ctx.check(aid[a] in view.A[s], 'available-actions', lambda: f"iteration {state['it']}: expanded node {s} lists unavailable action {aid[a]}")
            ctx.check(nexp > state['n_expanded'], 'progress', lambda: f"iteration {state['it']}: n_expanded did not grow ({nexp})")
            state['n_expanded'] = nexp

    proxy = RandomProxy(sched)
    with patched_random([lao], proxy):
        try:
            positional = (len(view.spec['trans']) + view.n) % 3 == 0 or view.n > 100          # a third of the planners (and those of the long chains) are built by position
            if positional:
                ctx.probe('constructed_by_position')
            planner = construct(lao.LAOStar, 'LAOStar', dict(heuristic=lambda s: htab[sid[s]], seed=cfg['seed'], randomize_action_order=cfg['rao'],
                                randomize_nextstate_order=cfg['rno'], max_lao_star_iterations=10000, event_listener_class=L), positional)
            sib = sibling_mdp_spec(view.spec, cfg['reuse']) if cfg.get('reuse') is not None else None
            if sib is not None and cfg['reuse'] % 2 == 1:
                # fault F6: a first run on the SAME problem and objects is aborted by an exception thrown from a model call-back
                # (the library analogue of a crash); the real run then uses the same planner and model objects
                sib = None
                ctx.probe('rerun_after_abort')
                state['main'] = False
                hook = ctx.abort_after(1 + cfg['reuse'] % 60)
                try:
                    planner.plan_on(mdp)
                except InjectedAbort:
                    pass
                ctx.disarm(hook)
                state['main'] = True
            if sib is not None:
                # fault F5: the same planner object is first used on a sibling problem (same keys, one more absorbing state)
                sched.fire('F5_object_reuse')
                ctx.probe('planner_reused')
                state['main'] = False
                _first = planner.plan_on(make_mdp(MDPView(sib), ctx, alias=cfg.get('alias', 'fresh')))
                for _s in range(view.N):          # the first result is used before the object is used again
                    try:
                        _first.policy.action_dist(sk[_s])
                    except Exception:
                        pass
                state['main'] = True
            state['log0'] = len(sched.log)
            hookN = None
            if cfg.get('nest') is not None:
                # fault F10: at the k-th model call-back of the real run, ANOTHER planner object (same class, same seed and
                # options) plans another problem with the same state and action keys (other absorbing set / discount, probabilities, rewards) to completion
                nsp = nested_variant_spec(view.spec, cfg['nest'])
                nv = MDPView(nsp)
                if all(s_ in nv.absorbing for s_ in range(nv.N)):
                    nv = view            # (a sibling without any decision left: nest the problem itself)
                nV, _ = optimal_values(nv)
                nh = build_heuristic(cfg['heur'], nv, nV)

                def nested():
                    ctx.probe('nested_run')
                    state['main'] = False
                    try:
                        rn = lao.LAOStar(heuristic=lambda s: nh[sid[s]], seed=cfg['seed'], randomize_action_order=cfg['rao'],
                                         randomize_nextstate_order=cfg['rno'], max_lao_star_iterations=100, event_listener_class=L).plan_on(make_mdp(nv, None))
                        for _s in range(view.N):
                            try:
                                rn.policy.action_dist(sk[_s])
                            except Exception:
                                pass
                    finally:
                        state['main'] = True
                hookN = ctx.nest_after(1 + cfg['nest'] % 40, nested)
            r = planner.plan_on(mdp)
            if hookN is not None:
                ctx.disarm(hookN)
        except (Violation, Inconclusive):
            raise
        except Exception as e:
            raise Violation('exception', f"LAOStar.plan_on raised {type(e).__name__}: {e}", dict(key=f"exception/{type(e).__name__}"))
    def judge(r, tag):
        ctx.check(bool(r.converged), 'converged', f"{tag}LAO* did not report convergence")
        iv = float(r.initial_value)
        ctx.check(close6(iv, v0) or abs(iv - v0) <= 1e-11 * vscale, 'initial-value', lambda: f"{tag}initial_value {iv!r} != optimal value of the initial distribution {v0!r}")
        try:
            svm = {sid[s]: float(v) for s, v in r.state_value_map.items()}
        except (KeyError, TypeError, AttributeError) as e:
            raise Violation('result-shape', f"state_value_map malformed: {type(e).__name__}: {e}")
        for s, v in svm.items():
            ctx.check(v >= lb(s), 'upper-bound', lambda: f"value {v!r} held for explored state {s} is below its optimal value {Vs[s]!r}")
        # the policy, followed from every initial state
        pol = {}
        seen = set()
        fr = list(view.init)
        seen.update(fr)
        sol = {sid[s] for s in r.solution_graph.states_to_nodes}
        while fr:
            s = fr.pop()
            try:
                d = {aid[a]: float(p) for a, p in r.policy.action_dist(sk[s]).items() if p > 0}
            except Exception as e:
                raise Violation('policy-closed', f"{tag}policy undefined at state {s}, which it reaches itself: {type(e).__name__}: {e}")
            ctx.check(len(d) > 0 and abs(sum(d.values()) - 1) < 1e-9, 'policy-closed', lambda: f"policy at {s} is not a distribution: {d}")
            ctx.check(all(a in view.A[s] for a in d), 'policy-available', lambda: f"policy at {s} picks {sorted(d)}, available {view.A[s]}")
            pol[s] = d
            if s not in sol:
                ctx.probe('policy_fallback_state')
            if s in view.absorbing:
                continue
            for a in d:
                for t in view.T[s, a]:
                    if t not in seen:
                        seen.add(t)
                        fr.append(t)
        full = {s: pol.get(s, {view.A[s][0]: 1.0}) for s in range(view.N) if s not in view.absorbing}
        try:
            Vp, _ = evaluate(view, full)
        except np.linalg.LinAlgError:
            raise Violation('policy-optimal', "returned policy never reaches an absorbing state from some state (singular evaluation)")
        vp0 = sum(p * Vp[s] for s, p in view.init.items())
        ctx.check(close6(vp0, v0) or abs(vp0 - v0) <= 1e-11 * vscale, 'policy-optimal', lambda: f"{tag}exactly evaluated return of the returned policy {vp0!r} != optimum {v0!r}")

    n0 = state.get('log0', 0)
    judge(r, '')
    # fault F7: the iteration cap placed exactly at the number of expansions this schedule needs - the search finishes
    # its last expansion and revision as the cap is reached, so it must still report convergence and the optimal policy
    K = int(r.iterations)
    if cfg.get('cap_exact') and K >= 1:
        from sim.core import Scheduler
        seg = [(e[0], e[1]) for e in sched.log[n0:]]
        sub = Scheduler('replay', script=seg, cap=10 ** 6)
        sched.fire('F7_step_limit')
        ctx.probe('iteration_cap_exact')
        state['main'] = False
        with patched_random([lao], RandomProxy(sub)):
            try:
                r2 = lao.LAOStar(heuristic=lambda s: htab[sid[s]], seed=cfg['seed'], randomize_action_order=cfg['rao'],
                                 randomize_nextstate_order=cfg['rno'], max_lao_star_iterations=K, event_listener_class=L).plan_on(mdp)
            except (Violation, Inconclusive):
                raise
            except Exception as e:
                raise Violation('exception', f"LAOStar.plan_on (iteration cap {K}) raised {type(e).__name__}: {e}", dict(key=f"exception/{type(e).__name__}"))
        state['main'] = True
        judge(r2, f"with max_lao_star_iterations={K}, exactly the {K} expansions this schedule needs: ")
    return ctx.result()


def sample_repr(case, out):
    c = case['cfg']
    return dict(index=case['index'], states=case['spec']['n'], keys=case['spec']['kind'], discount=case['spec']['gamma'],
                proper=case['spec']['proper'], heuristic=c['heur']['kind'], rao=c['rao'], rno=c['rno'], mode=case['sched']['mode'],
                decisions=(out.get('stats') or {}).get('decisions'), first_decisions=(out.get('script') or [])[:6], status=out.get('status'))


def shrink(case):
    yield from shr.config_candidates(case, {('cfg', 'rao'): [False], ('cfg', 'rno'): [False],
                                            ('cfg', 'heur', 'kind'): ['exact', 'const', 'slack']})
    yield from shr.mdp_candidates(case, need_proper=case['spec']['gamma'] == 1.0)

"""C17 - R-MAX stays optimistic about what it has not tried often enough."""
import numpy as np

from sim.core import Violation, Inconclusive, InjectedAbort, RandomProxy, patched_random, close
from sim.models import nested_variant_spec, gen_mdp_spec, MDPView, make_mdp, sibling_mdp_spec, rotated_probability_spec, update_model_in_place
from sim.refsolve import game_W
from sim.ctx import RunCtx, make_scheduler, gen_sched, construct
from sim import shrink as shr

PROP = 'C17'
QUICK_RUNS = 60000
THOROUGH_RUNS = 2000000
QUICK_WALL = 100
THOROUGH_WALL = 1500
CORPUS_VARIANTS = True      # past findings are replayed under every key kind and action relabelling
CHUNK = 100
RULE = ("one run = one generated proper table MDP with uniform action sets x (threshold m, tolerance, episodes), with the "
        "scheduler deciding every initial state, tie action and successor; the full oracle is evaluated at every end of "
        "episode (the table that would be returned for that episode count) and on the returned result; distinct = distinct "
        "decision-log digest; non-trivial = >=1 decision and >=1 oracle clause")
REAL = ["msdm.algorithms.rmax.RMAX (unmodified)", "msdm.core.distributions sampling path", "TabularMarkovDecisionProcess state/action lists and reward matrix"]
STUB = ["table MDP behind msdm's model interface", "random.Random streams (SimRandom)", "empirical model rebuilt from the recorded history"]
ASSUMPTIONS = ["proper MDPs, uniform action sets, discount < 1, <= 6 non-absorbing states (6%: 2-3 states with up to 7 actions); the Bellman tolerance is the configured one plus 32 ulp of the values compared", "rmax configured as the maximum of the model's reward tensor (the learner asserts it)"]
from sim.models import SEAM_RANGES  # noqa: E402
ASSUMPTIONS = ASSUMPTIONS + [SEAM_RANGES]


def _size(rng):
    # mostly small models (<= 6 non-absorbing states); a few per cent are larger
    return dict(min_states=10, max_states=20, max_actions=4) if rng.random() < 0.04 else {}


def preload():
    import msdm.algorithms.rmax  # noqa


def gen_case(rng, tier, idx):
    wide = rng.random() < 0.06        # more actions than states (the tables are [state][action]: strides and shapes differ)
    # mostly moderate discounts; a few per cent close to 1, where planning on the empirical model needs thousands of sweeps
    spec = gen_mdp_spec(rng, extreme=True, **(dict(min_states=2, max_states=3, max_actions=7) if wide else _size(rng)), proper=True, uniform_actions=True, discounts=(0.99, 0.995, 0.999) if rng.random() < 0.04 else (0.5, 0.8, 0.9, 0.95))
    cfg = dict(m=rng.randint(1, 5) if rng.random() < 0.97 else rng.choice((20, 50)), tol=rng.choice((1e-3, 1e-5, 1e-5, 1e-8)), episodes=rng.randint(1, 6) if rng.random() < 0.98 else 0, seed=rng.choice((0, 1, 5, 99, None)),
               reuse=rng.randrange(1000) if rng.random() < 0.15 else None, alias=rng.choice(('fresh', 'fresh', 'cached', 'shared', 'tuple')),
               explicit_lists=rng.choice((False, False, False, True, 'swap', 'reversed')), model_update=rng.random() < 0.12)
    if rng.random() < 0.1 and idx % 4 != 0:
        cfg['nest'] = rng.randrange(1000)
    plain = idx % 4 == 0
    sched = gen_sched(rng, ('P',) if plain else ('P', 'U', 'R', 'R', 'X'))
    if plain:
        sched['budget'] = 1000
    return dict(spec=spec, cfg=cfg, sched=sched)


def execute(case, script=None):
    import msdm.algorithms.rmax as rm
    view = MDPView(case['spec'])
    ctx = RunCtx(PROP, view)
    ctx.W = game_W(view)
    ctx.declare_probes('pair_at_exactly_m', 'pair_at_m_minus_1_at_end', 'pair_sampled_beyond_m', 'unknown_pair_at_end',
                       'episode_from_absorbing_start', 'learner_reused', 'discount_close_to_one', 'explicit_state_list_with_unreachable_states', 'rerun_after_abort', 'model_updated_in_place', 'nested_run', 'first_result_checked_after_reuse', 'constructed_by_position', 'explicit_state_list_permuted')
    sched = make_scheduler(case, script, ctx)
    try:
        return _execute(rm, view, case['cfg'], ctx, sched)
    except (Violation, Inconclusive) as e:
        raise ctx.attach_partial(e)


def _execute(rm, view, cfg, ctx, sched):
    rview = None
    if cfg.get('model_update'):
        rview = MDPView(rotated_probability_spec(view.spec))
        if any(w == float('inf') for w in game_W(rview).values()):
            rview = None
    if rview is not None:
        mdp = make_mdp(rview, ctx, alias=cfg.get('alias', 'fresh'), explicit_lists=cfg.get('explicit_lists', False), stored_dists=True)
    else:
        mdp = make_mdp(view, ctx, alias=cfg.get('alias', 'fresh'), explicit_lists=cfg.get('explicit_lists', False))
    g = view.gamma
    if g >= 0.99:
        ctx.probe('discount_close_to_one')
    m, tol = cfg['m'], cfg['tol']
    sk, ak, sid, aid = view.sk, view.ak, view.sid, view.aid
    reach0 = set(view.init)
    fr0 = list(reach0)
    while fr0:
        s_ = fr0.pop()
        if s_ in view.absorbing:
            continue
        for a_ in view.A[s_]:
            for t_ in view.T[s_, a_]:
                if t_ not in reach0:
                    reach0.add(t_)
                    fr0.append(t_)
    # the model's maximum reward = max of its reward tensor over the reachable state list (unfilled cells are 0)
    listed = set(range(view.N)) if cfg.get('explicit_lists') else reach0      # the model's state list
    if cfg.get('explicit_lists') and len(reach0) < view.N:
        ctx.probe('explicit_state_list_with_unreachable_states')
    if cfg.get('explicit_lists') in ('swap', 'reversed') and view.N >= 4:
        ctx.probe('explicit_state_list_permuted')
    cells = [view.R[s, a, t] for (s, a), d in view.T.items() if s in listed for t in d]
    if len(cells) < len(listed) * view.spec['nA'] * len(listed):
        cells.append(0.0)
    rmax = max(cells)
    opt = rmax / (1 - g)
    nA = view.spec['nA']
    cnt, total, Rsum, Tc = {}, {}, {}, {}
    state = dict(prev=None, ep=0, t=0, main=True)

    def oracle(Qr, where, policy=None):
        reach = set()
        fr = list(view.init)
        reach.update(fr)
        while fr:
            s = fr.pop()
            if s in view.absorbing:
                continue
            for a in view.A[s]:
                for t_ in view.T[s, a]:
                    if t_ not in reach:
                        reach.add(t_)
                        fr.append(t_)
        expect = set(range(view.N)) if cfg.get('explicit_lists') else reach
        ctx.check(set(Qr) == expect, 'result-shape', lambda: f"{where}: Q has states {sorted(Qr)}, the model's state list is {sorted(expect)}")
        for s in Qr:
            ctx.check(set(Qr[s]) == set(range(nA)), 'result-shape', lambda: f"{where}: Q[{s}] has actions {sorted(Qr[s])}")
            for a, v in Qr[s].items():
                ctx.check(v <= opt + 1e-12 * abs(opt) + 1e-12, 'optimism-bound', lambda: f"{where}: Q[{s}][{a}]={v!r} exceeds rmax/(1-gamma)={opt!r}")
                c = cnt.get((s, a), 0)
                if c < m:
                    ctx.check(v == opt, 'optimistic-unknown', lambda: f"{where}: pair ({s},{a}) tried {c} < m={m} times but Q={v!r} != optimistic {opt!r}",
                              key='optimistic-unknown' + ('/m-1' if c == m - 1 else ''))
                else:
                    tgt = Rsum[s, a] / m + g * sum(k / m * max(Qr[t_].values()) for t_, k in Tc[s, a].items())
                    ctx.check(abs(v - tgt) < tol + 1e-12 + 32 * float(np.spacing(max(abs(v), abs(tgt), abs(opt)))), 'bellman-empirical',      # (the tolerance cannot be finer than the floats it is measured in)
                              lambda: f"{where}: pair ({s},{a}) known (first {m} samples: R={Rsum[s, a] / m!r}, T={Tc[s, a]}) but |Q - backup| = {abs(v - tgt)!r} >= {tol}")
        if policy is not None:
            for s in Qr:
                try:
                    d = {aid[a]: p for a, p in policy.action_dist(sk[s]).items()}
                except Exception as e:
                    raise Violation('policy', f"policy undefined at {s}: {type(e).__name__}: {e}")
                mx = max(Qr[s].values())
                am = {a for a in Qr[s] if Qr[s][a] == mx}
                sup = {a for a, p in d.items() if p > 0}
                ctx.check(sup == am and all(close(d[a], 1 / len(am)) for a in am), 'policy',
                          lambda: f"policy at {s} is {d}, greedy set of returned Q is {sorted(am)}")

    class L(rm.RMAXEventListener):
        def __init__(self):
            pass

        def end_of_timestep(self, lv):
            if not state['main']:
                return
            ctx.steps += 1
            t = state['t']
            state['t'] += 1
            try:
                s, a, ns, r = sid[lv['s']], aid[lv['a']], sid[lv['ns']], lv['r']
            except (KeyError, TypeError):
                raise Violation('step-real', f"step {t} uses unknown state/action")
            ctx.check(s not in view.absorbing, 'step-real', lambda: f"step {t}: acted in absorbing state {s}")
            ctx.check(view.T[s, a].get(ns, 0) > 0, 'step-real', lambda: f"step {t}: successor {ns} has probability 0 under ({s},{a})")
            ctx.check(r == view.R[s, a, ns], 'step-real', lambda: f"step {t}: reward {r} != model reward {view.R[s, a, ns]}")
            prev = state['prev']
            if prev is not None:
                ctx.check(prev == s, 'step-chain', lambda: f"step {t}: starts in {s}, previous ended in {prev}")
            else:
                ctx.check(view.init.get(s, 0) > 0, 'step-chain', lambda: f"step {t}: episode starts outside the initial support ({s})")
            state['prev'] = ns
            total[s, a] = total.get((s, a), 0) + 1
            if cnt.get((s, a), 0) < m:
                cnt[s, a] = cnt.get((s, a), 0) + 1
                Rsum[s, a] = Rsum.get((s, a), 0.0) + r
                Tc.setdefault((s, a), {})
                Tc[s, a][ns] = Tc[s, a].get(ns, 0) + 1
                if cnt[s, a] == m:
                    ctx.probe('pair_at_exactly_m')
            else:
                ctx.probe('pair_sampled_beyond_m')

        def end_of_episode(self, lv):
            if not state['main']:
                return
            if state['prev'] is None:
                ctx.probe('episode_from_absorbing_start')
            else:
                p = state['prev']
                ctx.check(p in view.absorbing, 'step-chain', lambda: f"episode ended in non-absorbing state {p}")
            state['prev'] = None
            state['ep'] += 1
            # the table that would be returned for this episode count
            try:
                learner = lv['self']
                qm = learner.q_matrix
                sl = [sid[s] for s in lv['mdp'].state_list]
                al = [aid[a] for a in lv['mdp'].action_list]
                Qr = {s: {a: float(qm[i, j]) for j, a in enumerate(al)} for i, s in enumerate(sl)}
            except Exception:
                return      # internals renamed: only the returned result is checked
            oracle(Qr, f"after episode {state['ep']}")

        def results(self):
            return None

    proxy = RandomProxy(sched)
    with patched_random([rm], proxy):
        try:
            positional = (len(view.spec['trans']) + view.n) % 3 == 0          # a third of the learners are built by position
            if positional:
                ctx.probe('constructed_by_position')
            learner = construct(rm.RMAX, 'RMAX', dict(episodes=cfg['episodes'], rmax=rmax, num_transition_samples=m, bellman_convergence_diff=tol,
                                seed=cfg['seed'], event_listener_class=L), positional)
            if rview is not None:
                # fault F9 for models: trained on with rotated probabilities first, then the model's own distribution
                # objects are updated in place to this workload's probabilities (only if the learner's rmax assertion
                # holds for the rotated model too, i.e. the same transitions stay reachable)
                import numpy as _np
                if float(_np.max(mdp.reward_matrix)) == rmax and len(mdp.state_list) == len(listed):
                    sched.fire('F9_model_updated_in_place')
                    ctx.probe('model_updated_in_place')
                    state['main'] = False
                    W0, ctx.W = ctx.W, game_W(rview)
                    rm.RMAX(episodes=cfg['episodes'], rmax=rmax, num_transition_samples=m, bellman_convergence_diff=tol,
                            seed=cfg['seed'], event_listener_class=L).train_on(mdp)
                    ctx.W = W0
                    state['main'] = True
                update_model_in_place(mdp, view)
                for attr in [a for a in vars(mdp) if a.startswith('_cached_') or a.startswith('_cache_')]:
                    delattr(mdp, attr)        # the model changed: its memoised matrix views are the user's to drop
            sib = sibling_mdp_spec(view.spec, cfg['reuse']) if cfg.get('reuse') is not None else None
            if sib is not None and cfg['reuse'] % 2 == 1:
                # fault F6: a first run on the SAME problem and objects is aborted by an exception thrown from a model call-back
                # (the library analogue of a crash); the real run then uses the same learner and model objects
                sib = None
                ctx.probe('rerun_after_abort')
                state['main'] = False
                hook = ctx.abort_after(1 + cfg['reuse'] % 60)
                try:
                    learner.train_on(mdp)
                except InjectedAbort:
                    pass
                ctx.disarm(hook)
                state['main'] = True
            if sib is not None:
                # fault F5: the same learner object is first trained on a sibling problem (same keys, one more absorbing state)
                sview = MDPView(sib)
                smdp_ = make_mdp(sview, ctx, alias=cfg.get('alias', 'fresh'), explicit_lists=cfg.get('explicit_lists', False))
                import numpy as _np
                if float(_np.max(smdp_.reward_matrix)) == rmax:      # the learner asserts rmax == max reward of the model it is given
                    sched.fire('F5_object_reuse')
                    ctx.probe('learner_reused')
                    state['main'] = False
                    W0, ctx.W = ctx.W, game_W(sview)
                    _first = learner.train_on(smdp_)
                    for _s in range(0, view.N, 2):    # the first result is used before the object is used again - at every other
                        try:                          # state; the rest of its policy is looked at after the second run (below)
                            _first.policy.action_dist(sk[_s])
                        except Exception:
                            pass
                    state['first'] = _first
                    ctx.W = W0
                    state['main'] = True
            hookN = None
            if cfg.get('nest') is not None:
                # fault F10: at the k-th model call-back of the real training run, ANOTHER RMAX object (same threshold, seed and
                # tolerance) is trained on another problem with the same state and action keys - and therefore the same table
                # shapes - but another absorbing set / discount, other probabilities and rewards
                nv = MDPView(nested_variant_spec(view.spec, cfg['nest']))
                nW = game_W(nv)
                nmdp = make_mdp(nv, None, explicit_lists=cfg.get('explicit_lists', False))
                import numpy as _np
                nrmax = float(_np.max(nmdp.reward_matrix))

                def nested():
                    ctx.probe('nested_run')
                    state['main'] = False
                    try:
                        ctx.W = nW
                        rn = rm.RMAX(episodes=1 + cfg['nest'] % 3, rmax=nrmax, num_transition_samples=m, bellman_convergence_diff=tol,
                                     seed=cfg['seed'], event_listener_class=L).train_on(nmdp)
                        for _s in range(view.N):
                            try:
                                rn.policy.action_dist(sk[_s])
                            except Exception:
                                pass
                    finally:
                        state['main'] = True
                hookN = ctx.nest_after(1 + cfg['nest'] % 50, nested)
            res = learner.train_on(mdp)
            if hookN is not None:
                ctx.disarm(hookN)
        except (Violation, Inconclusive):
            raise
        except Exception as e:
            raise Violation('exception', f"RMAX.train_on raised {type(e).__name__}: {e}")
    ctx.check(state['ep'] == cfg['episodes'], 'episodes', lambda: f"{state['ep']} episodes, {cfg['episodes']} configured")
    try:
        Qr = {sid[s]: {aid[a]: float(v) for a, v in av.items()} for s, av in res.q_values.items()}
    except (KeyError, TypeError, AttributeError) as e:
        raise Violation('result-shape', f"q_values malformed: {type(e).__name__}: {e}")
    oracle(Qr, "returned", res.policy)
    first = state.get('first')
    if first is not None:
        # two results alive: the FIRST result of the reused learner must still be greedy for its own Q-values
        try:
            Q1 = {sid[s_]: {aid[a]: float(v) for a, v in av.items()} for s_, av in first.q_values.items()}
        except (KeyError, TypeError, AttributeError) as e:
            raise Violation('result-shape', f"first result's q_values malformed: {type(e).__name__}: {e}")
        ctx.probe('first_result_checked_after_reuse')
        for s_ in sorted(Q1):
            try:
                d = {aid[a]: p for a, p in first.policy.action_dist(sk[s_]).items()}
            except Exception as e:
                raise Violation('policy', f"first result's policy undefined at {s_} after the learner was used again: {type(e).__name__}: {e}")
            mx = max(Q1[s_].values())
            am = {a for a in Q1[s_] if Q1[s_][a] == mx}
            sup = {a for a, p in d.items() if p > 0}
            ctx.check(sup == am and all(close(d[a], 1 / len(am)) for a in am), 'policy',
                      lambda: f"after the learner object was trained again, its FIRST result's policy at {s_} is {d}; that result's own Q-values make it uniform over {sorted(am)}",
                      key='policy/first-result-after-reuse')
    for (s, a), c in cnt.items():
        if c == m - 1:
            ctx.probe('pair_at_m_minus_1_at_end')
    if any(cnt.get((s, a), 0) < m for s in Qr if s not in view.absorbing for a in range(nA)):
        ctx.probe('unknown_pair_at_end')
    return ctx.result()


def sample_repr(case, out):
    c = case['cfg']
    return dict(index=case['index'], states=case['spec']['n'], actions=case['spec']['nA'], keys=case['spec']['kind'],
                discount=case['spec']['gamma'], m=c['m'], tol=c['tol'], episodes=c['episodes'], mode=case['sched']['mode'],
                budget=case['sched']['budget'], decisions=(out.get('stats') or {}).get('decisions'),
                steps=(out.get('stats') or {}).get('steps'), first_decisions=(out.get('script') or [])[:12], status=out.get('status'))


def shrink(case):
    yield from shr.config_candidates(case, {('cfg', 'episodes'): [1, 2, 3], ('cfg', 'm'): [1, 2], ('cfg', 'tol'): [1e-3]})
    yield from shr.mdp_candidates(case, need_proper=True, uniform_actions=True)

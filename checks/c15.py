"""C15 - augmented sub-tasks and options preserve the base MDP and stop at their goals."""
import copy
import numpy as np

from sim.core import Violation, Inconclusive, InjectedAbort, SimRandom, Scheduler, RandomProxy, patched_random, close
from sim.models import nested_variant_spec, gen_mdp_spec, MDPView, make_mdp, dyadic
from sim.refsolve import optimal_values
from sim.ctx import RunCtx, make_scheduler, gen_sched
from sim import shrink as shr

PROP = 'C15'
QUICK_RUNS = 25000
THOROUGH_RUNS = 500000
QUICK_WALL = 100
THOROUGH_WALL = 1500
CHUNK = 50
RULE = ("one run = one generated base MDP (discount below or at 1) x option (stochastic policy or planned sub-goal option, random "
        "termination set, step limit) x semi-MDP simulation count, the scheduler deciding every draw of every option simulation; "
        "a first execution fixes the termination time T the scheduler realises and a second replays the same decisions with "
        "max_steps at T-1..T+2 (fault F7); augment()'s static clauses are evaluated on the same workload; distinct = distinct "
        "decision-log digest; non-trivial = >=1 decision and >=1 oracle clause")
REAL = ["msdm.core.semimdp.option (Option.run_on, PlanToSubgoalOption, augment)", "msdm.core.semimdp.semimdp.SemiMarkovDecisionProcess",
        "msdm.core.mdp.policy.Policy.run_on", "msdm.algorithms.valueiteration.ValueIteration (as the option's planner only)"]
STUB = ["table MDP behind msdm's model interface", "random.Random streams (SimRandom)", "empirical-distribution recomputation; reference solver for the sub-task optimum"]
ASSUMPTIONS = ["a run whose first terminal state comes after exactly max_steps-1 or max_steps steps may raise or return (the statement does not choose)",
               "sub-task planning compared with the reference optimum only for discounted bases (always well defined)"]
from sim.models import SEAM_RANGES  # noqa: E402
ASSUMPTIONS = ASSUMPTIONS + [SEAM_RANGES]

COMPONENTS = ('initial_state_dist', 'actions', 'next_state_dist', 'reward', 'is_absorbing', 'state_list', 'action_list')


def preload():
    import msdm.core.semimdp.semimdp  # noqa
    import msdm.core.semimdp.option  # noqa
    import msdm.algorithms.valueiteration  # noqa


def gen_case(rng, tier, idx):
    if rng.random() < 0.01:
        return _long_chain_case(rng)
    # 4 %: large costs that differ by small surcharges (returns of different roll-outs agree to 5-6 significant digits)
    spec = gen_mdp_spec(rng, proper=rng.random() < 0.6, discounts=(0.5, 0.8, 0.9, 0.95, 1.0, 1.0),
                        rewards=(-50000.0, -50000.25, -49999.75, -50000.0) if rng.random() < 0.04 else None)
    v = MDPView(spec)
    pol = []
    for s in range(v.N):
        acts = v.A[s]
        k = rng.randint(1, len(acts)) if rng.random() < 0.4 else len(acts)
        sub = sorted(rng.sample(acts, k))
        pol.append([[a, p] for a, p in zip(sub, dyadic(rng, k))])
    term = set(rng.sample(range(v.N), rng.randint(1, min(3, v.N))))
    if rng.random() < 0.6:
        term |= set(v.absorbing)
    nonterm = [s for s in range(v.N) if s not in term]
    start = rng.choice(nonterm) if nonterm and rng.random() < 0.8 else rng.randrange(v.N)
    cfg = dict(kind=rng.choice(('simple', 'simple', 'plan')), pol=pol, term=sorted(term), max_steps=rng.choice((1, 2, 3, 5, 1000)),
               rel=rng.choice((-1, 0, 1, 2)), nsim=rng.choice((1, 3, 8)), start=start, seed=rng.choice((0, 3, 11)),
               include_abs=rng.random() < 0.5, clip=rng.choice((None, None, 0.0, -1.0)),
               override=sorted(rng.sample(COMPONENTS, rng.randint(0, 4))), optname=rng.choice(('o', 'opt-1', 'go')),
               include_mdp_actions=rng.random() < 0.4, alias=rng.choice(('fresh', 'cached', 'shared')), ask_actions=rng.random() < 0.6)
    plain = idx % 4 == 0
    if rng.random() < 0.12 and not plain:
        cfg['nest'] = rng.randrange(1000)
    elif rng.random() < 0.1 and not plain:
        cfg['abort'] = rng.randrange(1000)
    sched = gen_sched(rng, ('P',) if plain else ('P', 'U', 'R'), budget_choices=(None,), coop=False, cap=200000)
    return dict(spec=spec, cfg=cfg, sched=sched)


def _long_chain_case(rng):
    """An option that walks a chain of 350-450 states at discount 0.05 / 0.1 / 0.5: gamma**t leaves the float range on the way."""
    n = rng.randint(350, 450)
    trans = []
    for s in range(n):
        outs = [[s + 1, 8, rng.choice((-1.0, 0.0, 1.0))]] if rng.random() < 0.9 else [[s + 1, 7, -1.0], [s, 1, 0.0]]
        trans.append([s, 0, outs])
    trans.append([n, 0, [[n, 8, 0.0]]])
    spec = dict(kind=rng.choice(('int', 'str', 'int0')), n=n, absorbing=[n], nA=1, gamma=rng.choice((0.05, 0.1, 0.5)), trans=trans,
                init=[[0, 8]], proper=True)
    cfg = dict(kind='simple', pol=[[[0, 8]] for _ in range(n + 1)], term=[n], max_steps=1000, rel=rng.choice((0, 1, 2)), nsim=rng.choice((1, 3)),
               start=rng.choice((0, 0, 5)), seed=3, include_abs=True, clip=None, override=[], optname='walk',
               include_mdp_actions=False, alias='fresh', ask_actions=False, long_chain=True)
    return dict(spec=spec, cfg=cfg, sched=gen_sched(rng, ('P',), budget_choices=(None,), coop=False, cap=200000))


def execute(case, script=None):
    import random as _r
    _r.seed(f"global:{case.get('verif_seed')}:{case.get('index')}")
    view = MDPView(case['spec'])
    ctx = RunCtx(PROP, view)
    ctx.declare_probes('second_option_with_shorter_limit', 'plan_option_subclass_with_exits', 'base_model_with_warm_caches', 'fresh_model_after_other_model', 'rerun_after_abort', 'aborts_delivered', 'nested_run', 'second_derived_mdp_alive', 'second_planned_option_alive', 'option_raised_must', 'option_returned_must', 'boundary_raised', 'start_terminal',
                       'smdp_call_raised', 'smdp_dist_checked', 'primitive_checked', 'static_override_sets', 'plan_option',
                       'subtask_plan_checked', 'f7_before', 'f7_boundary', 'f7_after', 'cross_call_checked', 'smdp_actions_asked', 'option_run_longer_than_330_steps')
    sched = make_scheduler(case, script, ctx)
    try:
        return _execute(view, case['cfg'], ctx, sched)
    except (Violation, Inconclusive) as e:
        raise ctx.attach_partial(e)


def _execute(view, cfg, ctx, sched):
    import msdm.core.semimdp.semimdp as sm
    from msdm.core.semimdp.option import Option, augment, PlanToSubgoalOption
    from msdm.core.mdp import FunctionalPolicy
    from msdm.core.distributions import DictDistribution
    from msdm.core.exceptions import AlgorithmException
    from msdm.algorithms.valueiteration import ValueIteration

    mdp = make_mdp(view, ctx, alias=cfg.get('alias', 'fresh'))
    sk, ak, sid, aid = view.sk, view.ak, view.sid, view.aid
    g = view.gamma
    term = set(cfg['term'])
    pol_tab = [{a: p / 8 for a, p in row} for row in cfg['pol']]

    # ------------------------------------------------------------ static: augment
    _static_augment(ctx, view, mdp, cfg, augment)

    # ------------------------------------------------------------ the option
    inner_runs = []      # every policy roll-out made inside Option.run_on (returned or not)

    class RecPolicy(FunctionalPolicy):
        def run_on(self, *a, **k):
            r = super().run_on(*a, **k)
            inner_runs.append(r)
            return r

    if cfg['kind'] == 'plan' and g < 1.0:
        ctx.probe('plan_option')
        base_states = sorted(sid[s] for s in mdp.state_list)      # reachable from the base initial states (sorted: the inferred list order may depend on the hash seed)
        PlanCls, goals_ = PlanToSubgoalOption, sorted(term)
        if len(term) >= 2 and (len(term) + view.n) % 2 == 0:
            # call form: the user's own subclass of the planning helper - one declared sub-goal, the other terminal states are
            # "exits" that only its overridden is_terminal knows about
            ctx.probe('plan_option_subclass_with_exits')

            class PlanCls(PlanToSubgoalOption):
                def is_terminal(self_, s):
                    return sid[s] in term
            goals_ = sorted(term)[:1]
        popt = PlanCls(mdp=mdp, initial_states=[sk[s] for s in base_states if s not in term] or [sk[base_states[0]]],
                                   subgoals=[sk[s] for s in goals_], planner=ValueIteration(max_residual=1e-10),
                                   include_mdp_absorbing_states=cfg['include_abs'], name=cfg['optname'],
                                   max_steps=cfg['max_steps'],
                                   max_nonterminal_pseudoreward=float('inf') if cfg['clip'] is None else cfg['clip'])
        other_goals = [s for s in base_states if s not in term][:1]
        if other_goals:
            # (two live objects) a second sub-goal option - other sub-goal, other clipping level - builds its sub-task
            # before the first option's sub-task is looked at
            popt_other = PlanToSubgoalOption(mdp=mdp, initial_states=[sk[s] for s in base_states if s not in other_goals] or [sk[base_states[0]]],
                                             subgoals=[sk[s] for s in other_goals], planner=ValueIteration(max_residual=1e-10),
                                             include_mdp_absorbing_states=not cfg['include_abs'], name='other-' + str(cfg['optname']),
                                             max_steps=cfg['max_steps'], max_nonterminal_pseudoreward=-0.125)
            try:
                popt.sub_task, popt_other.sub_task
            except Exception as e:
                raise Violation('exception', f"sub_task raised {type(e).__name__}: {e}")
            ctx.probe('second_planned_option_alive')
        _static_subtask(ctx, view, popt, cfg, term)
        try:
            ppol = popt.policy
            plan_tab = [({aid[a]: float(p) for a, p in ppol.action_dist(sk[s]).items() if p > 0} if s in base_states else {}) for s in range(view.N)]
        except (Violation, Inconclusive):
            raise
        except Exception as e:
            raise Violation('exception', f"PlanToSubgoalOption.policy raised {type(e).__name__}: {e}")
        use_tab = plan_tab
        inner_policy = RecPolicy(lambda s: ppol.action_dist(s))
    else:
        use_tab = pol_tab
        inner_policy = RecPolicy(lambda s: DictDistribution({ak[a]: p for a, p in pol_tab[sid[s]].items()}))

    calls = []           # (outcome, result-or-None, inner-run) per Option.run_on call

    class Opt(Option):
        def __init__(self, max_steps):
            self.name = cfg['optname']
            self.policy = inner_policy
            self.max_steps = max_steps

        def is_initial(self, s):
            return True

        def is_terminal(self, s):
            return sid[s] in term

        def run_on(self, mdp_, initial_state, rng=None):
            n0 = len(inner_runs)
            try:
                r = super().run_on(mdp_, initial_state, rng=rng)
            except AlgorithmException:
                calls.append(('raise', None, inner_runs[n0] if len(inner_runs) > n0 else None, self.max_steps))
                raise
            calls.append(('ok', r, inner_runs[n0] if len(inner_runs) > n0 else None, self.max_steps))
            return r

        def __hash__(self):
            return hash(self.name)

    def judge(call, start, tag):
        """Validate one Option.run_on call against its inner roll-out."""
        outcome, res, inner, max_steps = call
        ctx.check(inner is not None, 'option-run', f"{tag}: the option did not execute its policy")
        try:
            path = [sid[x['state']] for x in inner.steps]
            rows = [(sid[x['state']], aid[x['action']], sid[x['next_state']], x['reward']) for x in inner.steps[:-1]]
        except (KeyError, TypeError, AttributeError) as e:
            raise Violation('result-shape', f"{tag}: malformed option trajectory: {type(e).__name__}: {e}")
        ctx.check(path[0] == start, 'option-start', lambda: f"{tag}: starts in {path[0]}, requested {start}")
        for t, (s, a, ns, r) in enumerate(rows):
            ctx.steps += 1
            ctx.check(use_tab[s].get(a, 0) > 0, 'option-step', lambda: f"{tag}: step {t} action {a} has policy probability 0 at {s}")
            ctx.check(view.T[s, a].get(ns, 0) > 0, 'option-step', lambda: f"{tag}: step {t} successor {ns} impossible under ({s},{a})")
            ctx.check(r == view.R[s, a, ns], 'option-step', lambda: f"{tag}: step {t} reward {r} != base reward {view.R[s, a, ns]}")
            ctx.check(path[t + 1] == ns, 'option-step', lambda: f"{tag}: step {t} does not chain")
        n = len(path) - 1
        first = next((k for k, x in enumerate(path) if x in term), None)
        ctx.check(first is None or first == n, 'option-stop-first-terminal',
                  lambda: f"{tag}: trajectory {path} continues past its first terminal state (terminal set {sorted(term)})")
        ctx.check(n <= max_steps, 'option-stop-first-terminal', lambda: f"{tag}: {n} steps with max_steps={max_steps}")
        if first is None:
            ctx.check(n == max_steps, 'option-stop-first-terminal', lambda: f"{tag}: stopped after {n} steps at non-terminal state {path[-1]} (max_steps={max_steps})")
            ctx.check(outcome == 'raise', 'option-limit', lambda: f"{tag}: no terminal state within max_steps={max_steps} steps ({path}) but the option returned")
            ctx.probe('option_raised_must')
        elif n <= max_steps - 2:
            ctx.check(outcome == 'ok', 'option-limit', lambda: f"{tag}: reached terminal state after {n} steps, max_steps={max_steps}, but the option raised")
            ctx.probe('option_returned_must')
        else:
            ctx.probe('boundary_raised' if outcome == 'raise' else 'boundary_returned')
        if n == 0:
            ctx.probe('start_terminal')
        if n > 330:
            ctx.probe('option_run_longer_than_330_steps')
        if outcome == 'ok':
            ctx.check(res is inner or [dict(x) for x in res.steps] == [dict(x) for x in inner.steps], 'option-run',
                      f"{tag}: the option returned something other than its policy's trajectory")
        G = sum(r * g ** t for t, (s, a, ns, r) in enumerate(rows))
        return path[-1], n, G, outcome

    # ------------------------------------------------------------ direct execution + F7
    rng = SimRandom(sched)
    start = cfg['start']
    if cfg['kind'] == 'plan' and g < 1.0 and start not in base_states:
        start = base_states[start % len(base_states)]     # the planned policy is tabulated on the base state list only
    o = Opt(cfg['max_steps'])

    def call_option(opt, r):
        try:
            opt.run_on(mdp, sk[start], rng=r)
        except AlgorithmException:
            pass
        except (Violation, Inconclusive):
            raise
        except Exception as e:
            raise Violation('exception', f"Option.run_on raised {type(e).__name__}: {e}")
        return calls[-1]

    if cfg.get('abort') is not None:
        # fault F6: a run of the SAME option object on the same model object dies half-way with an exception thrown from a
        # model call-back; the runs below use the same objects
        ctx.probe('rerun_after_abort')
        if cfg['abort'] % 2:
            # ... after the option object has completed a run on ANOTHER model (same keys), and on a FRESH object for this
            # workload's model, so that the run dies during the library's first sweep over it
            try:
                o.run_on(make_mdp(MDPView(nested_variant_spec(view.spec, cfg['abort'])), None), sk[start], rng=SimRandom(sched))
            except AlgorithmException:
                pass
            except (Violation, Inconclusive):
                raise
            except Exception as e:
                raise Violation('exception', f"Option.run_on (on another model) raised {type(e).__name__}: {e}")
            mdp = make_mdp(view, ctx, alias=cfg.get('alias', 'fresh'))
            ctx.probe('fresh_model_after_other_model')
        hook = ctx.abort_after(1 + (cfg['abort'] // 2) % 9)
        try:
            o.run_on(mdp, sk[start], rng=SimRandom(sched))
        except InjectedAbort:
            ctx.probe('aborts_delivered')
        except AlgorithmException:
            pass
        ctx.disarm(hook)
        calls.clear()
        inner_runs.clear()
    hookN = None
    if cfg.get('nest') is not None:
        # fault F10: at the k-th model call-back of the option's run, user code runs ANOTHER option (other policy, other
        # termination set) on another model with the same keys - an option whose policy looks ahead with a scout option
        nv = MDPView(nested_variant_spec(view.spec, cfg['nest']))
        nmdp = make_mdp(nv, None)
        nterm = {s for s in range(view.N) if (s + cfg['nest']) % 3 == 0}

        class Scout(Option):
            name = 'scout'
            max_steps = 4
            policy = FunctionalPolicy(lambda s: DictDistribution.uniform([ak[a] for a in nv.A[sid[s]]]))

            def is_initial(self, s):
                return True

            def is_terminal(self, s):
                return sid[s] in nterm

        def nested():
            ctx.probe('nested_run')
            try:
                Scout().run_on(nmdp, sk[start], rng=SimRandom(sched))
            except AlgorithmException:
                pass
        hookN = ctx.nest_after(1 + cfg['nest'] % 9, nested)
    judge(call_option(o, rng), start, 'option#1')
    if hookN is not None:
        ctx.disarm(hookN)
    n0 = len(sched.log)
    long_o = Opt(60)
    end, T, _, outcome = judge(call_option(long_o, rng), start, 'option#2(max_steps=60)')
    if end in term:
        seg = [(e[0], e[1]) for e in sched.log[n0:]]
        ms = max(1, T + cfg['rel'])
        sched.fire('F7_step_limit')
        ctx.probe('f7_before' if ms < T else ('f7_boundary' if ms <= T + 1 else 'f7_after'))
        judge(call_option(Opt(ms), SimRandom(Scheduler('replay', script=seg, cap=10 ** 6))), start, f'option#3(max_steps={ms},T={T})')

    # ------------------------------------------------------------ semi-MDP
    nsim = cfg['nsim']
    opts = [o]
    if (cfg['max_steps'] + view.n + nsim) % 3 == 0:
        # a second option with its own (shorter) step limit lives in the same semi-MDP and is asked about first
        o_short = Opt(1 + (view.n + nsim) % 3)
        o_short.name = 'short-' + str(cfg['optname'])
        opts = [o, o_short]
        ctx.probe('second_option_with_shorter_limit')
    smdp = sm.SemiMarkovDecisionProcess(mdp=mdp, options=opts, n_option_simulations=nsim, seed=cfg['seed'],
                                        include_mdp_actions=bool(cfg.get('include_mdp_actions')))
    if len(opts) > 1:
        try:
            with patched_random([sm], RandomProxy(sched)):
                smdp.next_state_transit_time_reward_dist(sk[start], o_short)
        except AlgorithmException:
            pass
        except (Violation, Inconclusive):
            raise
        except Exception as e:
            raise Violation('exception', f"semi-MDP query for the second option raised {type(e).__name__}: {e}")
        calls.clear()
        inner_runs.clear()

    def ask_actions(tag):
        # the semi-MDP's action set at a state: the base actions (when included) followed by the options available there;
        # asking for it must leave the base MDP as it was
        try:
            got = list(smdp.actions(sk[start]))
        except (Violation, Inconclusive):
            raise
        except Exception as e:
            raise Violation('exception', f"{tag}: SemiMarkovDecisionProcess.actions raised {type(e).__name__}: {e}")
        exp = ([ak[a] for a in view.A[start]] if cfg.get('include_mdp_actions') else []) + opts
        ctx.check(len(got) == len(exp) and all((x is y) or (not isinstance(y, Opt) and x == y) for x, y in zip(got, exp)), 'semimdp-actions',
                  lambda: f"{tag}: semi-MDP actions at {start} are {got}, expected the base actions {view.A[start] if cfg.get('include_mdp_actions') else []} then the option")
        base = list(mdp.actions(sk[start]))
        ctx.check(base == [ak[a] for a in view.A[start]], 'base-preserved',
                  lambda: f"{tag}: after asking the semi-MDP for its actions the base MDP's actions at {start} are {base}, they were {[ak[a] for a in view.A[start]]}")
        ctx.probe('smdp_actions_asked')
    if cfg.get('abort') is not None:
        hook = ctx.abort_after(1 + (cfg['abort'] // 9) % 11)
        try:
            with patched_random([sm], RandomProxy(sched)):
                smdp.next_state_transit_time_reward_dist(sk[start], o)
        except InjectedAbort:
            ctx.probe('aborts_delivered')
        except AlgorithmException:
            pass
        ctx.disarm(hook)
        calls.clear()
        inner_runs.clear()
    if cfg.get('ask_actions'):
        ask_actions('before the outcome queries')
        ask_actions('asked twice')
    proxy = RandomProxy(sched)

    def smdp_call(fn, tag):
        calls.clear()
        with patched_random([sm], proxy):
            try:
                d = fn()
                exc = False
            except AlgorithmException:
                d, exc = None, True
            except (Violation, Inconclusive):
                raise
            except Exception as e:
                raise Violation('exception', f"{tag} raised {type(e).__name__}: {e}")
        outs = [judge(c, start, f"{tag} simulation {i}") for i, c in enumerate(calls)]
        if exc:
            ctx.probe('smdp_call_raised')
            ctx.check(any(x[3] == 'raise' for x in outs), 'semimdp-raise', f"{tag}: raised although no simulation hit its step limit")
            return None, outs
        ctx.check(all(x[3] == 'ok' for x in outs), 'semimdp-raise', f"{tag}: returned although a simulation raised")
        ctx.check(len(outs) == nsim, 'semimdp-count', lambda: f"{tag}: {len(outs)} simulations, n_option_simulations={nsim}")
        return d, outs

    def empirical(outs, proj):
        emp = {}
        for (e, n, G, _) in outs:
            k = proj(e, n, G)
            emp[k] = emp.get(k, 0) + 1 / nsim
        return emp

    def match(d, emp, tag, has_reward):
        try:
            got = [(_ids(k, has_reward), float(p)) for k, p in d.items()]
            tot = sum(p for k, p in got)
        except (Violation, Inconclusive):
            raise
        except Exception as e:
            raise Violation('result-shape', f"{tag}: malformed distribution: {type(e).__name__}: {e}")
        ctx.check(close(tot, 1.0, 1e-9, 1e-9), 'semimdp-normalised', lambda: f"{tag}: probabilities sum to {tot!r}")
        # Outcomes whose discounted reward differs only by float rounding (gamma**t vs repeated multiplication, or two
        # simulations summing in the same order to 1 ulp apart) are one outcome: cluster rewards within 1e-9 on both sides.
        groups = {}
        for side, items in (('got', got), ('emp', list(emp.items()))):
            for k, p in items:
                disc, rew = (k[:-1], k[-1]) if has_reward else (k, 0.0)
                groups.setdefault(disc, []).append((rew, side, p))
        for disc, ents in groups.items():
            ents.sort(key=lambda e: e[0])
            clusters = []
            for rew, side, p in ents:
                if clusters and close(clusters[-1]['hi'], rew, 1e-9, 1e-9):
                    c = clusters[-1]
                else:
                    c = dict(lo=rew, hi=rew, got=0.0, emp=0.0)
                    clusters.append(c)
                c['hi'] = rew
                c[side] += p
            for c in clusters:
                ctx.check(close(c['got'], c['emp'], 1e-9, 1e-9), 'semimdp-empirical',
                          lambda: f"{tag}: outcome {disc + ((c['lo'],) if has_reward else ())} has probability {c['got']!r}, its empirical frequency over the "
                          f"{nsim} simulations is {c['emp']!r} (returned {got})")

    def _ids(k, has_reward):
        try:
            if isinstance(k, tuple) and len(k) in (2, 3) and k[0] in sid and not (k in sid):
                return (sid[k[0]],) + tuple(k[1:])
            return (sid[k],)
        except (KeyError, TypeError):
            raise Violation('result-shape', f"unexpected outcome key {k!r}")

    d, outs = smdp_call(lambda: smdp.next_state_transit_time_reward_dist(sk[start], o), 'next_state_transit_time_reward_dist')
    if d is not None:
        ctx.probe('smdp_dist_checked')
        match(d, empirical(outs, lambda e, n, G: (e, n, G)), 'next_state_transit_time_reward_dist', True)
    d, outs = smdp_call(lambda: smdp.next_state_transit_time_dist(sk[start], o), 'next_state_transit_time_dist')
    if d is not None:
        match(d, empirical(outs, lambda e, n, G: (e, n)), 'next_state_transit_time_dist', False)
    d, outs = smdp_call(lambda: smdp.next_state_dist(sk[start], o), 'next_state_dist')
    if d is not None:
        match(d, empirical(outs, lambda e, n, G: (e,)), 'next_state_dist', False)
    d, outs = smdp_call(lambda: smdp.expected_cumulative_reward(sk[start], o), 'expected_cumulative_reward')
    if d is not None:
        ref = sum(G for (e, n, G, _) in outs) / nsim
        ctx.check(close(float(d), ref, 1e-9, 1e-9), 'semimdp-empirical', lambda: f"expected_cumulative_reward {float(d)!r} != mean over its own simulations {ref!r}")
    if cfg.get('ask_actions'):
        ask_actions('after the outcome queries')
    # primitive action
    if start not in view.absorbing or True:
        a = view.A[start][0]
        try:
            d2 = smdp.next_state_transit_time_reward_dist(sk[start], ak[a])
            got = {(sid[k[0]], k[1], k[2]): float(p) for k, p in d2.items() if p > 0}
        except Exception as e:
            raise Violation('exception', f"primitive action outcome raised {type(e).__name__}: {e}")
        ref = {(t, 1, view.R[start, a, t]): p for t, p in view.T[start, a].items()}
        ctx.probe('primitive_checked')
        ctx.check(set(got) == set(ref) and all(close(got[k], ref[k]) for k in ref), 'semimdp-primitive',
                  lambda: f"primitive action ({start},{a}): {got}, expected one-step outcomes with duration 1: {ref}")
    # ------------------------------------------------------------ cross-call consistency (genuine streams)
    # With the real Mersenne-Twister streams the simulations of (state, option) are a function of the semi-MDP's
    # seed (fixed at first use when none is given), so the outcome distribution of one call must be the empirical
    # distribution of run_simulations() called separately, and the derived methods its marginals / expectation.
    for seed_ in (cfg['seed'], None):
        smdp2 = sm.SemiMarkovDecisionProcess(mdp=mdp, options=[o], n_option_simulations=nsim, seed=seed_)
        fproxy = RandomProxy(sched, faithful=True)
        with patched_random([sm], fproxy):
            try:
                d = smdp2.next_state_transit_time_reward_dist(sk[start], o)
                sims = smdp2.run_simulations(sk[start], o)
                d_t = smdp2.next_state_transit_time_dist(sk[start], o)
                d_n = smdp2.next_state_dist(sk[start], o)
                e_r = smdp2.expected_cumulative_reward(sk[start], o)
            except AlgorithmException:
                continue
            except (Violation, Inconclusive):
                raise
            except Exception as e:
                raise Violation('exception', f"semi-MDP (seed={seed_}) raised {type(e).__name__}: {e}")
        ctx.probe('cross_call_checked')
        outs = []
        for sim in sims:
            rows = [(sid[x['state']], aid[x['action']], sid[x['next_state']], x['reward']) for x in sim.steps[:-1]]
            outs.append((sid[sim.steps[-1]['state']], len(rows), sum(r * g ** t for t, (_, _, _, r) in enumerate(rows)), 'ok'))
        tag = f"semi-MDP(seed={seed_})"
        match(d, empirical(outs, lambda e, n, G: (e, n, G)), tag + ': outcome distribution vs run_simulations()', True)
        match(d_t, empirical(outs, lambda e, n, G: (e, n)), tag + ': next_state_transit_time_dist vs run_simulations()', False)
        match(d_n, empirical(outs, lambda e, n, G: (e,)), tag + ': next_state_dist vs run_simulations()', False)
        ref = sum(G for (e, n, G, _) in outs) / nsim
        ctx.check(close(float(e_r), ref, 1e-9, 1e-9), 'semimdp-empirical', lambda: f"{tag}: expected_cumulative_reward {float(e_r)!r} != mean over run_simulations() {ref!r}")
    return ctx.result()


# ---------------------------------------------------------------------- static
def _static_augment(ctx, view, mdp, cfg, augment):
    from msdm.core.distributions import DictDistribution
    sk, ak, sid, aid = view.sk, view.ak, view.sid, view.aid
    ov = set(cfg['override'])
    ctx.probe('static_override_sets')
    alt_abs = {s for s in range(view.N) if s % 2 == 0}
    kw = {}
    if 'initial_state_dist' in ov:
        kw['initial_state_dist'] = lambda: DictDistribution({sk[view.N - 1]: 1.0})
    if 'actions' in ov:
        kw['actions'] = lambda s: list(reversed([ak[a] for a in view.A[sid[s]]]))
    if 'next_state_dist' in ov:
        kw['next_state_dist'] = lambda s, a: DictDistribution({s: 1.0})
    if 'reward' in ov:
        kw['reward'] = lambda s, a, ns: view.R.get((sid[s], aid[a], sid[ns]), 0.0) + 100.0     # (total: an overridden next_state_dist creates new transitions)
    if 'is_absorbing' in ov:
        kw['is_absorbing'] = lambda s: sid[s] in alt_abs
    base_sl, base_al = list(mdp.state_list), list(mdp.action_list)
    if (len(ov) + view.n) % 2 == 0:
        # the base model arrives USED: its matrix views and reachable-state cache exist before anything is derived from it
        ctx.probe('base_model_with_warm_caches')
        for attr in ('transition_matrix', 'reward_matrix', 'action_matrix', 'initial_state_vec', 'absorbing_state_vec'):
            getattr(mdp, attr)
        mdp.reachable_states()
    if 'state_list' in ov:
        kw['state_list'] = tuple(reversed(base_sl))
    if 'action_list' in ov:
        kw['action_list'] = tuple(reversed(base_al))
    try:
        aug = augment(mdp, **kw)
    except Exception as e:
        raise Violation('exception', f"augment({sorted(ov)}) raised {type(e).__name__}: {e}")
    # fault F10 (two live objects): before the derived MDP is used, ANOTHER MDP of the same class - same keys, other
    # discount / absorbing set / probabilities / rewards - is augmented with the same set of overridden components
    # (other functions); the second derived MDP stays alive while the first one is checked
    ov_view = MDPView(nested_variant_spec(view.spec, 5 + len(ov)))
    other = make_mdp(ov_view, None)
    kw2 = {}
    if 'initial_state_dist' in ov:
        kw2['initial_state_dist'] = lambda: DictDistribution({sk[0]: 1.0})
    if 'actions' in ov:
        kw2['actions'] = lambda s: [ak[a] for a in ov_view.A[sid[s]]][:1]
    if 'next_state_dist' in ov:
        kw2['next_state_dist'] = lambda s, a: DictDistribution({sk[0]: 1.0})
    if 'reward' in ov:
        kw2['reward'] = lambda s, a, ns: -7.0
    if 'is_absorbing' in ov:
        kw2['is_absorbing'] = lambda s: sid[s] % 2 == 1
    if 'state_list' in ov:
        kw2['state_list'] = tuple(other.state_list)
    if 'action_list' in ov:
        kw2['action_list'] = tuple(other.action_list)
    try:
        aug_other = augment(other, **kw2)
        aug_other.discount_rate, aug_other.is_absorbing(sk[0]), list(aug_other.actions(sk[0]))
    except Exception as e:
        raise Violation('exception', f"augment({sorted(ov)}) of a second MDP raised {type(e).__name__}: {e}")
    ctx.probe('second_derived_mdp_alive')

    def chk(cond, what):
        ctx.check(cond, 'augment-preserves', lambda: f"augment overriding {sorted(ov)}: {what() if callable(what) else what}",
                  key='augment-preserves/' + (what() if callable(what) else what).split(':')[0])

    chk(aug.discount_rate == mdp.discount_rate, lambda: f"discount_rate: {aug.discount_rate!r} != base {mdp.discount_rate!r}")
    chk(list(aug.state_list) == (list(reversed(base_sl)) if 'state_list' in ov else base_sl), lambda: f"state_list: {list(aug.state_list)} vs base {base_sl}")
    chk(list(aug.action_list) == (list(reversed(base_al)) if 'action_list' in ov else base_al), lambda: f"action_list: {list(aug.action_list)} vs base {base_al}")
    init = {sid[s]: p for s, p in aug.initial_state_dist().items() if p > 0}
    chk(init == ({view.N - 1: 1.0} if 'initial_state_dist' in ov else view.init), lambda: f"initial_state_dist: {init}")
    # the derived MDP's second entry point: its matrix views must describe the same model as its functions
    # (not when the transitions are overridden but the reward is not: the base reward is undefined on the new transitions)
    matrix_views = not ('next_state_dist' in ov and 'reward' not in ov)
    try:
        if not matrix_views:
            raise StopIteration
        sl, al = list(aug.state_list), list(aug.action_list)
        Tm, Rm, av = aug.transition_matrix, aug.reward_matrix, aug.absorbing_state_vec
    except StopIteration:
        sl = []
    except Exception as e:
        raise Violation('exception', f"augment({sorted(ov)}): matrix views raised {type(e).__name__}: {e}")
    for si, s_ in enumerate(sl):
        chk((not aug.is_absorbing(s_)) or bool(av[si]), lambda: f"matrix-views: absorbing_state_vec misses the absorbing state {sid[s_]}")
        for a_ in aug.actions(s_):
            ai = al.index(a_)
            d = {t_: p for t_, p in aug.next_state_dist(s_, a_).items() if p > 0}
            for ni, t_ in enumerate(sl):
                chk(abs(Tm[si, ai, ni] - d.get(t_, 0.0)) <= 1e-12, lambda: f"matrix-views: transition_matrix[{sid[s_]},{aid[a_]},{sid[t_]}] = {Tm[si, ai, ni]!r}, next_state_dist gives {d.get(t_, 0.0)!r}")
                if t_ in d:
                    chk(Rm[si, ai, ni] == aug.reward(s_, a_, t_), lambda: f"matrix-views: reward_matrix[{sid[s_]},{aid[a_]},{sid[t_]}] = {Rm[si, ai, ni]!r}, reward() gives {aug.reward(s_, a_, t_)!r}")
    for s in range(view.N):
        acts = [aid[a] for a in aug.actions(sk[s])]
        chk(acts == (list(reversed(view.A[s])) if 'actions' in ov else view.A[s]), lambda: f"actions: at {s} {acts} vs {view.A[s]}")
        chk(bool(aug.is_absorbing(sk[s])) == ((s in alt_abs) if 'is_absorbing' in ov else (s in view.absorbing)), lambda: f"is_absorbing: at {s}")
        for a in view.A[s]:
            d = {sid[t]: p for t, p in aug.next_state_dist(sk[s], ak[a]).items() if p > 0}
            chk(d == ({s: 1.0} if 'next_state_dist' in ov else view.T[s, a]), lambda: f"next_state_dist: at ({s},{a}) {d}")
            for t in view.T[s, a]:
                r = aug.reward(sk[s], ak[a], sk[t])
                chk(r == view.R[s, a, t] + (100.0 if 'reward' in ov else 0.0), lambda: f"reward: at ({s},{a},{t}) {r}")


def _static_subtask(ctx, view, popt, cfg, term):
    sk, ak, sid, aid = view.sk, view.ak, view.sid, view.aid
    try:
        sub = popt.sub_task
    except Exception as e:
        raise Violation('exception', f"sub_task raised {type(e).__name__}: {e}")
    ctx.check(sub.discount_rate == view.gamma, 'subtask-discount', lambda: f"sub_task.discount_rate {sub.discount_rate!r} != base {view.gamma!r}",
              key='augment-preserves/discount_rate')
    clip = cfg['clip']
    sub_abs = set(term) | (set(view.absorbing) if cfg['include_abs'] else set())
    for s in range(view.N):
        ctx.check(bool(sub.is_absorbing(sk[s])) == (s in sub_abs), 'subtask-shape', lambda: f"sub_task.is_absorbing({s})")
        for a in view.A[s]:
            for t in view.T[s, a]:
                r = view.R[s, a, t]
                exp = r if (t in term or clip is None or r <= clip) else clip
                got = sub.reward(sk[s], ak[a], sk[t])
                ctx.check(got == exp, 'subtask-reward', lambda: f"sub_task.reward({s},{a},{t}) = {got}, expected {exp} (base {r}, clip {clip})")
    # planning result vs the reference optimum of the sub-task at the base discount
    spec2 = copy.deepcopy(view.spec)
    spec2['absorbing'] = sorted(sub_abs)
    spec2['N'] = view.N
    for x in spec2['trans']:
        for o in x[2]:
            if not (o[0] in term or clip is None or o[2] <= clip):
                o[2] = clip
    v2 = MDPView(spec2)
    Vref, _ = optimal_values(v2)
    try:
        pr = popt.planning_result
        got = {sid[s]: float(v) for s, v in pr.state_value.items()}
    except (Violation, Inconclusive):
        raise
    except Exception as e:
        raise Violation('exception', f"planning_result raised {type(e).__name__}: {e}")
    ctx.probe('subtask_plan_checked')
    for s in got:
        ctx.check(abs(got[s] - Vref[s]) <= 1e-6 * (1 + abs(Vref[s])), 'subtask-plan',
                  lambda: f"sub-task value at {s}: planner {got[s]!r}, optimum at the base discount {view.gamma} is {Vref[s]!r}")


def sample_repr(case, out):
    c = case['cfg']
    return dict(index=case['index'], states=case['spec']['n'], keys=case['spec']['kind'], discount=case['spec']['gamma'], option=c['kind'],
                terminal=c['term'], max_steps=c['max_steps'], rel=c['rel'], nsim=c['nsim'], override=c['override'], start=c['start'],
                mode=case['sched']['mode'], decisions=(out.get('stats') or {}).get('decisions'), steps=(out.get('stats') or {}).get('steps'),
                first_decisions=(out.get('script') or [])[:10], status=out.get('status'))


def shrink(case):
    yield from shr.config_candidates(case, {('cfg', 'nsim'): [1, 3], ('cfg', 'override'): [[]], ('cfg', 'kind'): ['simple'],
                                            ('cfg', 'clip'): [None], ('cfg', 'max_steps'): [1, 2, 3, 5]})
    c = case['cfg']
    for cand in shr.mdp_candidates(case, need_proper=False):
        if len(cand['spec']['trans']) == len(case['spec']['trans']) and cand['spec']['n'] == case['spec']['n']:
            v = MDPView(cand['spec'])
            if all(a in v.A.get(s, []) for s, row in enumerate(c['pol']) for a, p in row):
                yield cand

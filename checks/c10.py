"""C10 - TD learners' Q-tables are exactly their update rule folded over the
experienced history; steps are real transitions; interval; greedy policy."""
import math
import copy

from sim.core import Violation, Inconclusive, InjectedAbort, RandomProxy, patched_random, close
from sim.models import nested_variant_spec, gen_mdp_spec, MDPView, make_mdp, sibling_mdp_spec, rotated_probability_spec, update_model_in_place
from sim.refsolve import game_W
from sim.ctx import RunCtx, make_scheduler, gen_sched, construct
from sim import shrink as shr

PROP = 'C10'
QUICK_RUNS = 150000
THOROUGH_RUNS = 2000000
QUICK_WALL = 100
THOROUGH_WALL = 1500
CORPUS_VARIANTS = True      # past findings are replayed under every key kind and action relabelling
CHUNK = 100
RULE = ("one run = one generated proper table MDP x learner x parameters, driven by a seeded scheduler that decides "
        "every initial state, exploration coin, action choice, tie-break and successor; distinct = distinct decision-log "
        "digest; non-trivial = at least one scheduler decision and one oracle clause evaluated")
REAL = ["msdm.algorithms.tdlearning (all four learners, unmodified)", "msdm.core.distributions sampling path",
        "msdm.core.utils.dictutils.defaultdict2", "msdm QuickTabularMDP wrapper"]
STUB = ["table MDP behind msdm's model interface (harness spec)", "random.Random streams (SimRandom, scheduler-decided)",
        "reference fold of the published update rules"]
ASSUMPTIONS = ["workloads are proper MDPs with <= 6 non-absorbing states (4%: 10-20)", "softmax temperatures 0, 1e-3, 0.01, 1, 5, 100 (with |r|<=2 and discount<=0.9 when > 0)",
               "policy clause checked with the Q-table's own entries (constant or callable initial Q)"]
from sim.models import SEAM_RANGES  # noqa: E402
ASSUMPTIONS = ASSUMPTIONS + [SEAM_RANGES]

LEARNERS = ('QLearning', 'SARSA', 'ExpectedSARSA', 'DoubleQLearning')


def _size(rng):
    # mostly small models (<= 6 non-absorbing states); a few per cent are larger
    return dict(min_states=10, max_states=20, max_actions=4) if rng.random() < 0.04 else {}


def preload():
    import msdm.algorithms.tdlearning  # noqa


def gen_case(rng, tier, idx):
    temp = rng.choice((0.0, 0.0, 0.0, 1.0, 5.0, 0.01, 1e-3, 100.0))
    if temp > 0:
        spec = gen_mdp_spec(rng, **_size(rng), proper=True, discounts=(0.5, 0.8, 0.9), rewards=(-2.0, -1.0, -1.0, 0.0, 1.0, 0.5, 2.0))
    else:
        edge = rng.random()
        spec = gen_mdp_spec(rng, extreme=True, **_size(rng), proper=True, discounts=(0.999,) if edge < 0.02 else (0.5, 0.8, 0.9, 0.95, 1.0),
                            rewards=(0.0,) if 0.02 <= edge < 0.04 else None)
    q0 = rng.choice((dict(kind='const', v=0.0), dict(kind='const', v=-1.0), dict(kind='const', v=2.5),
                     dict(kind='fn', base=rng.choice((0.0, -1.0, 1.0)), spread=0.25)))
    cfg = dict(learner=rng.choice(LEARNERS), episodes=rng.randint(1, 6) if rng.random() < 0.98 else 0, step_size=rng.choice((0, 0.1, 0.5, 1.0, 0.3, 1e-6)),
               rand_choose=rng.choice((0, 0.0, 0.1, 0.5, 1.0)), softmax_temp=temp, q0=q0, seed=rng.choice((0, 1, 7, 12345, None)),
               reentrant=rng.random() < 0.25, reuse=rng.randrange(1000) if rng.random() < 0.15 else None,
               alias=rng.choice(('fresh', 'fresh', 'cached', 'shared', 'tuple')), explicit_lists=rng.random() < 0.15,
               model_update=rng.random() < 0.12)
    if rng.random() < 0.1:
        cfg['nest'] = rng.randrange(1000)
    plain = idx % 4 == 0     # fault-free baseline quarter
    sched = gen_sched(rng, ('P',) if plain else ('P', 'U', 'R', 'X'), thresholds=(0.5, float(cfg['rand_choose'])))
    if plain:
        sched['budget'] = rng.choice((200, 1000))
        cfg['reentrant'] = False
        cfg['reuse'] = None
        cfg['model_update'] = False
        cfg['nest'] = None
    return dict(spec=spec, cfg=cfg, sched=sched)


def q0_fn(cfg, view):
    q0 = cfg['q0']
    if q0['kind'] == 'const':
        return (lambda s, a: q0['v']), q0['v']
    def f(s, a):
        return q0['base'] + q0['spread'] * ((view.sid[s] * 3 + view.aid[a]) % 5)
    return f, f


def execute(case, script=None):
    import msdm.algorithms.tdlearning as td
    view = MDPView(case['spec'])
    cfg = case['cfg']
    ctx = RunCtx(PROP, view)
    ctx.W = game_W(view)
    ctx.declare_probes('episode_from_absorbing_start', 'bootstrap_from_absorbing', 'argmax_tie',
                       'listener_reentry', 'step_size_one', 'learner_reused', 'no_seed_given', 'zero_episodes', 'rerun_after_abort', 'model_updated_in_place', 'nested_run', 'first_result_checked_after_reuse', 'constructed_by_position')
    sched = make_scheduler(case, script, ctx)
    try:
        return _execute(td, view, cfg, ctx, sched)
    except (Violation, Inconclusive) as e:
        raise ctx.attach_partial(e)


def _execute(td, view, cfg, ctx, sched):
    rview = None
    if cfg.get('model_update'):
        rview = MDPView(rotated_probability_spec(view.spec))
        if any(w == float('inf') for w in game_W(rview).values()):
            rview = None          # the rotated model must stay proper, or its training run need not end
    if rview is not None:
        # fault F9 for models: the model keeps one distribution object per (state, action); it is first trained on with
        # other probabilities, then updated IN PLACE to the probabilities of this workload, then trained on for real
        mdp = make_mdp(rview, ctx, alias=cfg.get('alias', 'fresh'), explicit_lists=cfg.get('explicit_lists', False), stored_dists=True)
    else:
        mdp = make_mdp(view, ctx, alias=cfg.get('alias', 'fresh'), explicit_lists=cfg.get('explicit_lists', False))
    g = view.gamma
    alpha, eps, temp = cfg['step_size'], cfg['rand_choose'], cfg['softmax_temp']
    q0f, q0arg = q0_fn(cfg, view)
    sk, ak, sid, aid = view.sk, view.ak, view.sid, view.aid
    rmin, rmax = view.rmin_rmax()
    q0vals = [q0f(sk[s], ak[a]) for s in range(view.n) for a in view.A[s]]
    lo = hi = None
    if g < 1 and 0 <= alpha <= 1:
        lo = min(min(q0vals), rmin / (1 - g), 0.0)
        hi = max(max(q0vals), rmax / (1 - g), 0.0)
    cls = getattr(td, cfg['learner'])
    if cfg['seed'] is None:
        ctx.probe('no_seed_given')
    if cfg['episodes'] == 0:
        ctx.probe('zero_episodes')
    is_dq = cfg['learner'] == 'DoubleQLearning'

    def init_row(s):
        return {a: (0.0 if s in view.absorbing else q0f(sk[s], ak[a])) for a in view.A[s]}

    Q, Q2 = {}, {}

    def get(Qt, s):
        if s not in Qt:
            Qt[s] = init_row(s)
        return Qt[s]

    state = dict(ep=0, prev=None, t=0, main=True)

    def softmax_eps(qn):
        if temp == 0.0:
            m = max(qn.values())
            am = [x for x in qn if qn[x] == m]
            sm = {x: (1 / len(am) if x in am else 0.0) for x in qn}
        else:
            mx = max(v / temp for v in qn.values())
            Z = sum(math.exp(v / temp - mx) for v in qn.values())
            sm = {x: math.exp(v / temp - mx) / Z for x, v in qn.items()}
        if eps == 0.0:
            return sm
        return {x: eps / len(qn) + (1 - eps) * sm[x] for x in qn}

    class L(td.TDLearningEventListener):
        def __init__(self):
            pass

        def end_of_timestep(self, lv):
            if not state['main']:
                return
            ctx.steps += 1
            try:
                s, a, ns, r = sid[lv['s']], aid[lv['a']], sid[lv['ns']], lv['r']
            except (KeyError, TypeError):
                raise Violation('step-real', f"step uses unknown state/action {lv.get('s')!r} {lv.get('a')!r} {lv.get('ns')!r}")
            t = state['t']
            state['t'] += 1
            ctx.check(s not in view.absorbing, 'step-real', lambda: f"step {t}: acted in absorbing state {s}")
            ctx.check(a in view.A[s], 'step-real', lambda: f"step {t}: action {a} unavailable in state {s}")
            ctx.check(view.T[s, a].get(ns, 0) > 0, 'step-real', lambda: f"step {t}: successor {ns} has probability 0 under ({s},{a})")
            ctx.check(r == view.R[s, a, ns], 'step-real', lambda: f"step {t}: reward {r} != model reward {view.R[s, a, ns]}")
            prev = state['prev']
            if prev is not None:
                ctx.check(prev == s, 'step-chain', lambda: f"step {t}: starts in {s} but previous step ended in {prev}")
                if cfg['learner'] == 'SARSA' and state.get('prev_na') is not None:
                    # SARSA's rule bootstraps on the action ACTUALLY TAKEN next: the A' of the previous update is this step's action
                    ctx.check(state['prev_na'] == a, 'fold-step', lambda: f"step {t}: SARSA's previous update bootstrapped on action {state['prev_na']} at state {s}, the action taken there is {a}",
                              key='fold-step/SARSA/bootstrap-action-not-taken')
            else:
                ctx.check(view.init.get(s, 0) > 0, 'step-chain', lambda: f"step {t}: episode starts in {s}, not in the initial support")
            state['prev'] = ns
            if ns in view.absorbing:
                ctx.probe('bootstrap_from_absorbing')
            if alpha == 1.0:
                ctx.probe('step_size_one')
            # ---- fold one step
            if is_dq:
                q1t, q2t = lv['q1'], lv['q2']
                o1, o2 = q1t[lv['s']][lv['a']], q2t[lv['s']][lv['a']]
                c1, c2 = get(Q, s)[a], get(Q2, s)[a]
                ok = False
                for first in (True, False):
                    A_, B_ = (Q, Q2) if first else (Q2, Q)
                    qa, qb = get(A_, ns), get(B_, ns)
                    m = max(qa.values())
                    ties = [x for x in qa if qa[x] == m]
                    if len(ties) > 1:
                        ctx.probe('argmax_tie')
                    for x in ties:
                        cur = get(A_, s)[a]
                        val = cur + alpha * (r + g * qb[x] - cur)
                        if first and close(val, o1) and close(c2, o2):
                            ok = True
                        if (not first) and close(val, o2) and close(c1, o1):
                            ok = True
                ctx.check(ok, 'fold-step', lambda: f"step {t} ({s},{a},{r},{ns}): double-Q tables ({o1!r},{o2!r}) not explained by updating "
                          f"one table from ({c1!r},{c2!r}) with the other's value at an arg-max", key='fold-step/DoubleQLearning')
                Q[s][a], Q2[s][a] = o1, o2
                newv = (o1, o2)
            else:
                qt = lv['q']
                obs = qt[lv['s']][lv['a']]
                qn = get(Q, ns)
                cur = get(Q, s)[a]
                if cfg['learner'] == 'QLearning':
                    tgt = r + g * max(qn.values())
                elif cfg['learner'] == 'SARSA':
                    na = aid[lv['na']]
                    ctx.check(na in view.A[ns], 'step-real', lambda: f"step {t}: next action {na} unavailable in {ns}")
                    state['prev_na'] = None if ns in view.absorbing else na
                    tgt = r + g * qn[na]
                else:
                    pi = softmax_eps(qn)
                    tgt = r + g * sum(pi[x] * qn[x] for x in qn)
                exp = cur + alpha * (tgt - cur)
                ctx.check(close(exp, obs), 'fold-step', lambda: f"step {t} ({s},{a},{r},{ns}): Q[{s}][{a}] became {obs!r}, update rule gives {exp!r} "
                          f"(before {cur!r}, target {tgt!r})", key='fold-step/' + cfg['learner'] + ('/absorbing-successor' if ns in view.absorbing else ''))
                Q[s][a] = exp
                newv = (obs,)
            if lo is not None:
                for x in newv:
                    ctx.check(lo - 1e-9 * (1 + abs(lo)) <= x <= hi + 1e-9 * (1 + abs(hi)), 'interval',
                              lambda: f"step {t}: Q[{s}][{a}]={x!r} outside [{lo!r},{hi!r}]")
            if cfg['reentrant']:
                # F8: the listener reads the model and the partial result through public API
                sched.fire('F8_listener_reentrancy')
                ctx.probe('listener_reentry')
                for s_ in range(view.N):
                    mdp.actions(sk[s_])
                    mdp.is_absorbing(sk[s_])
                tab = lv['q1'] if is_dq else lv['q']
                for k in list(tab.keys()):
                    dict(tab.get(k))
                mdp.next_state_dist(lv['s'], lv['a']).items()
                mdp.initial_state_dist()

        def end_of_episode(self, lv):
            if not state['main']:
                return
            state['prev_na'] = None
            if state['prev'] is None:
                ctx.probe('episode_from_absorbing_start')
            else:
                p = state['prev']
                ctx.check(p in view.absorbing, 'step-chain', lambda: f"episode {state['ep']} ended in non-absorbing state {p}")
            state['ep'] += 1
            state['prev'] = None

        def results(self):
            return None

    proxy = RandomProxy(sched)
    kwargs = dict(episodes=cfg['episodes'], step_size=alpha, rand_choose=eps, softmax_temp=temp,
                  initial_q=q0arg, seed=cfg['seed'], event_listener_class=L)
    with patched_random([td], proxy):
        try:
            positional = (len(view.spec['trans']) + view.n) % 3 == 0          # a third of the learners are built by position
            if positional:
                ctx.probe('constructed_by_position')
            learner = construct(cls, 'TD', kwargs, positional)
            if rview is not None:
                sched.fire('F9_model_updated_in_place')
                ctx.probe('model_updated_in_place')
                state['main'] = False
                W0, ctx.W = ctx.W, game_W(rview)
                cls(**kwargs).train_on(mdp)
                ctx.W = W0
                update_model_in_place(mdp, view)
                state['main'] = True
            sib = sibling_mdp_spec(view.spec, cfg['reuse']) if cfg.get('reuse') is not None else None
            if sib is not None and cfg['reuse'] % 2 == 1:
                # fault F6: a first run on the SAME problem and objects is aborted by an exception thrown from a model call-back
                # (the library analogue of a crash); the real run then uses the same learner and model objects
                sib = None
                ctx.probe('rerun_after_abort')
                state['main'] = False
                hook = ctx.abort_after(1 + cfg['reuse'] % 60)
                try:
                    learner.train_on(mdp)
                except InjectedAbort:
                    pass
                ctx.disarm(hook)
                state['main'] = True
            if sib is not None:
                # fault F5: the same learner object is first trained on a sibling problem (same keys, one more absorbing state)
                sched.fire('F5_object_reuse')
                ctx.probe('learner_reused')
                state['main'] = False
                sview = MDPView(sib)
                W0, ctx.W = ctx.W, game_W(sview)
                _first = learner.train_on(make_mdp(sview, ctx, alias=cfg.get('alias', 'fresh')))
                for _s in range(0, view.N, 2):    # the first result is used before the object is used again - at every other state;
                    try:                          # the rest of its policy is looked at only after the second run (below)
                        _first.policy.action_dist(sk[_s])
                    except Exception:
                        pass
                state['first'] = _first
                ctx.W = W0
                state['main'] = True
            hookN = None
            if cfg.get('nest') is not None:
                # fault F10: at the k-th model call-back of the real training run, ANOTHER learner object of the same class
                # (same seed and parameters, other initial values) is trained on another problem with the same state and
                # action keys (other absorbing set / discount, probabilities, rewards)
                nv = MDPView(nested_variant_spec(view.spec, cfg['nest']))
                nW = game_W(nv)
                nkw = dict(kwargs, initial_q=(lambda s, a: 3.5 + 0.125 * (sid[s] + 2 * aid[a])) if cfg['nest'] % 2 else 3.5, episodes=1 + cfg['nest'] % 3)

                def nested():
                    ctx.probe('nested_run')
                    state['main'] = False
                    try:
                        ctx.W = nW
                        rn = cls(**nkw).train_on(make_mdp(nv, None, explicit_lists=cfg.get('explicit_lists', False)))
                        for _s in range(view.N):
                            try:
                                rn.policy.action_dist(sk[_s])
                            except Exception:
                                pass
                    finally:
                        state['main'] = True
                hookN = ctx.nest_after(1 + cfg['nest'] % 50, nested)
            res = learner.train_on(mdp)
            if hookN is not None:
                ctx.disarm(hookN)
        except (Violation, Inconclusive):
            raise
        except Exception as e:
            raise Violation('exception', f"{cfg['learner']}.train_on raised {type(e).__name__}: {e}")
    ctx.check(state['ep'] == cfg['episodes'], 'episodes', lambda: f"{state['ep']} episodes reported, {cfg['episodes']} configured")

    # ---- final table
    try:
        got = {sid[s]: {aid[a]: float(v) for a, v in av.items()} for s, av in res.q_values.items()}
    except (KeyError, TypeError, AttributeError) as e:
        raise Violation('result-shape', f"q_values malformed: {type(e).__name__}: {e}")
    if is_dq:
        ref = {s: {a: .5 * get(Q, s)[a] + .5 * get(Q2, s)[a] for a in view.A[s]} for s in set(Q) | set(Q2)}
    else:
        ref = Q
    for s in ref:
        ctx.check(s in got, 'fold-final', lambda: f"state {s} was experienced but has no Q entry")
        for a in ref[s]:
            ctx.check(a in got[s] and close(got[s][a], ref[s][a]), 'fold-final',
                      lambda: f"Q[{s}][{a}] = {got[s].get(a)!r}, fold of the update rule gives {ref[s][a]!r}",
                      key='fold-final' + ('/absorbing' if s in view.absorbing else ''))
    for s in got:
        ctx.check(set(got[s]) == set(view.A[s]), 'fold-final', lambda: f"Q[{s}] has actions {sorted(got[s])}, available {view.A[s]}")
        ir = init_row(s)
        if s not in ref:
            for a, v in got[s].items():
                ctx.check(close(v, ir[a]), 'fold-final', lambda: f"Q[{s}][{a}]={v!r} for a state never experienced; initial value is {ir[a]!r}",
                          key='fold-final' + ('/absorbing' if s in view.absorbing else ''))
        if s in view.absorbing:
            for a, v in got[s].items():
                ctx.check(v == 0.0, 'absorbing-zero', lambda: f"absorbing state {s} holds Q[{s}][{a}]={v!r}, must stay 0")
        if lo is not None:
            for a, v in got[s].items():
                ctx.check(lo - 1e-9 * (1 + abs(lo)) <= v <= hi + 1e-9 * (1 + abs(hi)), 'interval', lambda: f"final Q[{s}][{a}]={v!r} outside [{lo!r},{hi!r}]")
    # ---- policy
    for s in range(view.N):
        try:
            d = {aid[a]: p for a, p in res.policy.action_dist(sk[s]).items()}
        except Exception as e:
            raise Violation('policy', f"policy undefined at state {s}: {type(e).__name__}: {e}")
        if s in got:
            m = max(got[s].values())
            ams = [{a for a in got[s] if got[s][a] == m}]
        else:
            # no entry: "all available actions"; with a callable initial Q the table's own
            # (initial) values are also accepted -- the statement does not choose (DESIGN 5/C10)
            ir = init_row(s)
            m = max(ir.values())
            ams = [set(view.A[s]), {a for a in ir if ir[a] == m}]
        sup = {a for a, p in d.items() if p > 0}
        ctx.check(any(sup == am and all(close(d[a], 1 / len(am)) for a in am) for am in ams), 'policy',
                  lambda: f"policy at state {s} is {d}, expected uniform over {[sorted(am) for am in ams]}")
    # ---- two results alive: the FIRST result of a reused learner must still be greedy for its own Q-table after the
    #      second run (its policy is evaluated lazily, state by state)
    first = state.get('first')
    if first is not None:
        try:
            got1 = {sid[s_]: {aid[a]: float(v) for a, v in av.items()} for s_, av in first.q_values.items()}
        except (KeyError, TypeError, AttributeError) as e:
            raise Violation('result-shape', f"first result's q_values malformed: {type(e).__name__}: {e}")
        ctx.probe('first_result_checked_after_reuse')
        for s_ in sorted(got1):
            try:
                d = {aid[a]: p for a, p in first.policy.action_dist(sk[s_]).items()}
            except Exception as e:
                raise Violation('policy', f"first result's policy undefined at state {s_} after the learner was used again: {type(e).__name__}: {e}")
            m = max(got1[s_].values())
            am = {a for a in got1[s_] if got1[s_][a] == m}
            sup = {a for a, p in d.items() if p > 0}
            ctx.check(sup == am and all(close(d[a], 1 / len(am)) for a in am), 'policy',
                      lambda: f"after the learner object was trained again, its FIRST result's policy at state {s_} is {d}; that result's own Q-table {got1[s_]} makes it uniform over {sorted(am)}",
                      key='policy/first-result-after-reuse')
    return ctx.result()


def sample_repr(case, out):
    c = case['cfg']
    return dict(index=case['index'], states=case['spec']['n'], keys=case['spec']['kind'], discount=case['spec']['gamma'],
                learner=c['learner'], episodes=c['episodes'], step_size=c['step_size'], rand_choose=c['rand_choose'],
                softmax_temp=c['softmax_temp'], mode=case['sched']['mode'], budget=case['sched']['budget'],
                decisions=(out.get('stats') or {}).get('decisions'), steps=(out.get('stats') or {}).get('steps'),
                first_decisions=(out.get('script') or [])[:12], status=out.get('status'))


def shrink(case):
    yield from shr.config_candidates(case, {
        ('cfg', 'episodes'): [1, 2, 3],
        ('cfg', 'reentrant'): [False],
        ('cfg', 'reuse'): [None],
        ('cfg', 'model_update'): [False],
        ('cfg', 'rand_choose'): [0],
        ('cfg', 'softmax_temp'): [0.0],
        ('cfg', 'step_size'): [1.0, 0.5],
        ('cfg', 'q0'): [dict(kind='const', v=0.0), dict(kind='const', v=-1.0)],
    })
    yield from shr.mdp_candidates(case, need_proper=True)

"""C14 - roll-outs are valid trajectories; Monte-Carlo evaluation averages them."""
import copy
import numpy as np

from sim.core import Violation, Inconclusive, InjectedAbort, SimRandom, Scheduler, close
from sim.models import (nested_variant_spec, gen_mdp_spec, MDPView, make_mdp, gen_pomdp_spec, POMDPView, make_pomdp, dyadic)
from sim.refsolve import game_W
from sim.ctx import RunCtx, make_scheduler, gen_sched
from sim import shrink as shr

PROP = 'C14'
QUICK_RUNS = 60000
THOROUGH_RUNS = 1500000
QUICK_WALL = 100
THOROUGH_WALL = 1500
CHUNK = 100
RULE = ("one run = one generated MDP or POMDP x policy (functional / tabular / deterministic; alpha-vector / Q-MDP / stochastic "
        "controller) x start state (given or sampled) x step cap, the scheduler being the generator argument of run_on / "
        "evaluate_on; a first roll-out fixes the absorption time T the scheduler realises and a second one replays the same "
        "decisions with the cap at T-1, T or T+1 (fault F7); distinct = distinct decision-log digest; non-trivial = >=1 "
        "decision and >=1 oracle clause")
REAL = ["msdm.core.mdp.policy (Policy.run_on, evaluate_on, calc_returns, FunctionalPolicy)", "msdm.core.mdp.tabularpolicy.TabularPolicy.action_dist",
        "msdm.core.pomdp.policy (POMDPPolicy.run_on, ValueBasedTabularPOMDPPolicy)", "AlphaVectorPolicy, QMDPPolicy, StochasticFiniteStateController",
        "msdm.core.distributions sampling path", "TabularPOMDP state estimator (through the value-based policies)"]
STUB = ["table MDP/POMDP behind msdm's model interface", "generator argument (SimRandom)", "trajectory validator and book-keeping recomputation"]
ASSUMPTIONS = ["belief-tracking policies are started with a belief whose support contains the start state",
               "either visit-counting convention for the closing state of a roll-out is accepted"]
from sim.models import SEAM_RANGES  # noqa: E402
ASSUMPTIONS = ASSUMPTIONS + [SEAM_RANGES]


def _size(rng):
    # mostly small models (<= 6 non-absorbing states); a few per cent are larger
    return dict(min_states=10, max_states=20, max_actions=4) if rng.random() < 0.04 else {}


def preload():
    import msdm.core.mdp.policy  # noqa
    import msdm.core.pomdp.policy  # noqa
    import msdm.core.pomdp.alphavectorpolicy  # noqa
    import msdm.algorithms.qmdp  # noqa
    import msdm.core.pomdp.finitestatecontroller  # noqa


def gen_case(rng, tier, idx):
    plain = idx % 4 == 0
    sched = gen_sched(rng, ('P',) if plain else ('P', 'U', 'R', 'X'), budget_choices=(5, 20, 60))
    if rng.random() < 0.65:
        long_run = rng.random() < 0.03      # long roll-outs with strong discounting: discount**t leaves the normal float range
        spec = gen_mdp_spec(rng, extreme=True, **_size(rng), proper=(rng.random() < 0.7) and not long_run, discounts=(0.1, 0.5) if long_run else (0.1, 0.5, 0.8, 0.9, 0.95, 0.99, 1.0, 0.99999, 1 - 1e-8))
        v = MDPView(spec)
        kind = rng.choice(('functional', 'tabular', 'deterministic'))
        pol = []
        for s in range(v.N):
            acts = v.A[s]
            if kind == 'deterministic':
                pol.append([[rng.choice(acts), 8]])
            else:
                k = rng.randint(1, len(acts)) if rng.random() < 0.4 else len(acts)
                sub = sorted(rng.sample(acts, k))
                pol.append([[a, p] for a, p in zip(sub, dyadic(rng, k))])
        pol2 = []
        for s in range(v.N):
            acts = v.A[s]
            k = rng.randint(1, len(acts))
            sub = sorted(rng.sample(acts, k))
            pol2.append([[a, p] for a, p in zip(sub, dyadic(rng, k))])
        cfg = dict(world='mdp', policy=kind, pol=pol, pol2=pol2, stored=(kind == 'functional' and rng.random() < 0.5),
                   update_style=rng.choice(('assign', 'replace')), start=rng.choice([None] + list(range(v.N))),
                   cap=rng.choice((400, 1200)) if long_run else rng.choice((0, 1, 2, 5, 50)), cap_rel=rng.choice((-1, 0, 1)), nsim=rng.choice((1, 3, 10)),
                   ecap=rng.choice((0, 1, 2, 5, 30)))
        if rng.random() < 0.12 and not plain:
            cfg['nest'] = rng.randrange(1000)
        elif rng.random() < 0.1 and not plain:
            cfg['abort'] = rng.randrange(1000)
    else:
        spec = gen_pomdp_spec(rng)
        kind = rng.choice(('alpha', 'qmdp', 'fsc'))
        nS, nA, nO = spec['nS'], spec['nA'], spec['nO']
        par = {}
        if kind == 'alpha':
            par['vectors'] = [[float(rng.randint(-3, 3)) for _ in range(nS)] for _ in range(rng.randint(1, 3))]
        elif kind == 'qmdp':
            par['q'] = [[float(rng.randint(-2, 2)) for _ in range(nA)] for _ in range(nS)]
        else:
            nN = rng.randint(1, 3)
            par['As'] = [[p / 8 for p in _dy0(rng, nA)] for _ in range(nN)]
            par['Ns'] = [[[[p / 8 for p in _dy0(rng, nN)] for _ in range(nO)] for _ in range(nA)] for _ in range(nN)]
            par['ini'] = [p / 8 for p in _dy0(rng, nN)]
        cfg = dict(world='pomdp', policy=kind, par=par, start=rng.choice([None, None] + list(range(nS))),
                   cap=rng.choice((0, 1, 3, 6, 20)), cap_rel=rng.choice((-1, 0, 1)))
    return dict(spec=spec, cfg=cfg, sched=sched)


def _dy0(rng, k):
    """k non-negative eighths summing to 8 (zeros allowed)."""
    m = rng.randint(1, k)
    idx = sorted(rng.sample(range(k), m))
    out = [0] * k
    for i, p in zip(idx, dyadic(rng, m)):
        out[i] = p
    return out


def execute(case, script=None):
    import random as _r
    _r.seed(f"global:{case.get('verif_seed')}:{case.get('index')}")
    cfg = case['cfg']
    if cfg['world'] == 'mdp':
        view = MDPView(case['spec'])
    else:
        view = POMDPView(case['spec'])
    ctx = RunCtx(PROP, view if cfg['world'] == 'mdp' else None)
    if cfg['world'] == 'mdp' and case['spec'].get('proper'):
        ctx.W = game_W(view)
    ctx.declare_probes('nested_run', 'rerun_after_abort', 'aborts_delivered', 'default_cap_rollouts', 'cap_before_absorption', 'cap_at_absorption', 'cap_after_absorption', 'cap_zero', 'start_absorbing',
                       'start_sampled', 'stopped_by_cap', 'stopped_by_absorption', 'pomdp_rollouts', 'mdp_rollouts',
                       'deterministic_exact_eval', 'long_rollout_400_steps', 'policy_updated_in_place')
    sched = make_scheduler(case, script, ctx)
    try:
        if cfg['world'] == 'mdp':
            return _exec_mdp(view, cfg, ctx, sched)
        return _exec_pomdp(view, cfg, ctx, sched)
    except (Violation, Inconclusive) as e:
        raise ctx.attach_partial(e)


# ------------------------------------------------------------------------ MDP
def _check_mdp_rollout(ctx, view, pol_tab, tr, start, cap, tag):
    sid, aid = view.sid, view.aid
    try:
        steps = list(tr.steps)
        rows = []
        for st in steps:
            rows.append((sid[st['state']], aid[st['action']] if 'action' in st else None,
                         sid[st['next_state']] if 'next_state' in st else None, st.get('reward'), st.get('timestep')))
    except (KeyError, TypeError, AttributeError) as e:
        raise Violation('result-shape', f"{tag}: malformed trajectory: {type(e).__name__}: {e}")
    ctx.check(len(rows) >= 1, 'rollout-start', f"{tag}: empty trajectory")
    s0 = rows[0][0]
    if start is not None:
        ctx.check(s0 == start, 'rollout-start', lambda: f"{tag}: starts in {s0}, requested {start}")
    else:
        ctx.check(view.init.get(s0, 0) > 0, 'rollout-start', lambda: f"{tag}: sampled start {s0} has probability 0")
    for t, (s, a, ns, r, ts) in enumerate(rows[:-1]):
        ctx.steps += 1
        ctx.check(s not in view.absorbing, 'rollout-step', lambda: f"{tag}: step {t} acts in absorbing state {s}")
        ctx.check(a is not None and pol_tab[s].get(a, 0) > 0, 'rollout-step', lambda: f"{tag}: step {t} action {a} has policy probability 0 at {s}")
        ctx.check(a in view.A[s] and view.T[s, a].get(ns, 0) > 0, 'rollout-step', lambda: f"{tag}: step {t} successor {ns} impossible under ({s},{a})")
        ctx.check(r == view.R[s, a, ns], 'rollout-step', lambda: f"{tag}: step {t} reward {r} != model {view.R[s, a, ns]}")
        ctx.check(ts == t, 'rollout-chain', lambda: f"{tag}: step {t} carries time index {ts}")
        ctx.check(rows[t + 1][0] == ns, 'rollout-chain', lambda: f"{tag}: step {t} ends in {ns} but next step starts in {rows[t + 1][0]}")
    last = rows[-1][0]
    n = len(rows) - 1
    ctx.check(n <= cap, 'rollout-stop', lambda: f"{tag}: {n} steps exceed the cap {cap}")
    ctx.check(n == cap or last in view.absorbing, 'rollout-stop',
              lambda: f"{tag}: stopped after {n} steps in non-absorbing state {last} before the cap {cap}")
    if last in view.absorbing and n < cap:
        ctx.probe('stopped_by_absorption')
    if n == cap:
        ctx.probe('stopped_by_cap')
    return [r[0] for r in rows], n


def _exec_mdp(view, cfg, ctx, sched):
    from msdm.core.mdp import FunctionalPolicy
    from msdm.core.mdp.policy import Policy
    from msdm.core.distributions import DictDistribution
    mdp = make_mdp(view, ctx)
    sk, ak, sid, aid = view.sk, view.ak, view.sid, view.aid
    g = view.gamma
    pol_tab = [{a: p / 8 for a, p in row} for row in cfg['pol']]
    runs = []

    class Rec(FunctionalPolicy):
        def run_on(self, *a, **k):
            r = super().run_on(*a, **k)
            runs.append(r)
            return r

    stored = None
    if cfg.get('stored'):
        # the policy keeps ONE distribution object per state and hands that object out on every call (a learning policy does)
        stored = [DictDistribution({ak[a]: p for a, p in row.items()}) for row in pol_tab]
        base = Rec(lambda s: stored[sid[s]])
    else:
        base = Rec(lambda s: DictDistribution({ak[a]: p for a, p in pol_tab[sid[s]].items()}))
    if cfg['policy'] == 'tabular':
        tab = base.to_tabular([sk[i] for i in range(view.N)], [ak[i] for i in range(view.spec['nA'])])

        class RecT(type(tab)):
            def run_on(self, *a, **k):
                r = super().run_on(*a, **k)
                runs.append(r)
                return r
        tab.__class__ = RecT
        pol = tab
    else:
        pol = base
    rng = SimRandom(sched)
    start = cfg['start']
    if start is None:
        ctx.probe('start_sampled')
    elif start in view.absorbing:
        ctx.probe('start_absorbing')

    def run(cap, r, tag, st=start):
        try:
            return pol.run_on(mdp, initial_state=None if st is None else sk[st], max_steps=cap, rng=r)
        except (Violation, Inconclusive):
            raise
        except Exception as e:
            raise Violation('exception', f"{tag}: run_on raised {type(e).__name__}: {e}")

    # 1. absolute cap
    cap = cfg['cap']
    if cap == 0:
        ctx.probe('cap_zero')
    if cfg.get('abort') is not None:
        # fault F6: a roll-out and an evaluation on the SAME policy and model objects die half-way with an exception thrown
        # from a model call-back; everything below then uses the same objects
        ctx.probe('rerun_after_abort')
        for what in ('run_on', 'evaluate_on'):
            hook = ctx.abort_after(1 + (cfg['abort'] // (1 if what == 'run_on' else 7)) % 9)
            try:
                if what == 'run_on':
                    pol.run_on(mdp, initial_state=None if start is None else sk[start], max_steps=20, rng=SimRandom(sched))
                else:
                    Policy.evaluate_on(pol, mdp, n_simulations=3, max_steps=2 + cfg['abort'] % 5, rng=SimRandom(sched))
            except InjectedAbort:
                ctx.probe('aborts_delivered')
            ctx.disarm(hook)
        runs.clear()
        if view.spec.get('proper'):
            # ... and the next roll-out relies on the DEFAULT step cap: on a model where every policy is absorbed with
            # probability 1 it must run until absorption
            try:
                trd = pol.run_on(mdp, initial_state=None if start is None else sk[start], rng=rng)
            except (Violation, Inconclusive):
                raise
            except Exception as e:
                raise Violation('exception', f"roll-out with the default step cap (after an aborted evaluation): run_on raised {type(e).__name__}: {e}")
            ctx.probe('default_cap_rollouts')
            _check_mdp_rollout(ctx, view, pol_tab, trd, start, int(2 ** 30), 'roll-out with the default step cap after an aborted evaluation')
        runs.clear()
    nested = None
    if cfg.get('nest') is not None:
        # fault F10: at the k-th model call-back of a roll-out / of the evaluation, user code rolls out and evaluates ANOTHER
        # policy object on another model with the same state and action keys (a look-ahead policy or a reward function
        # that Monte-Carlo-evaluates a base policy does this)
        nv = MDPView(nested_variant_spec(view.spec, cfg['nest']))
        nmdp = make_mdp(nv, None)
        ntab = [{a: p / 8 for a, p in row} for row in cfg['pol2']]
        npol = FunctionalPolicy(lambda s: DictDistribution({ak[a]: p for a, p in ntab[sid[s]].items()}))

        def nested():
            ctx.probe('nested_run')
            r2 = SimRandom(sched)
            npol.run_on(nmdp, max_steps=3, rng=r2)
            npol.evaluate_on(nmdp, n_simulations=2, max_steps=3, rng=r2)
        hookN = ctx.nest_after(1 + cfg['nest'] % 7, nested)
    tr = run(cap, rng, 'rollout#1')
    if nested is not None:
        ctx.disarm(hookN)
    ctx.probe('mdp_rollouts')
    _p, _n = _check_mdp_rollout(ctx, view, pol_tab, tr, start, cap, 'rollout#1')
    if _n >= 400:
        ctx.probe('long_rollout_400_steps')
    _check_returns(ctx, Policy, tr.reward, g, 'rollout#1')
    # 2. long roll-out to learn the absorption time T under this schedule, then F7: same decisions, cap at T+rel
    n0 = len(sched.log)
    big = 60
    tr = run(big, rng, 'rollout#2')
    ctx.probe('mdp_rollouts')
    path, T = _check_mdp_rollout(ctx, view, pol_tab, tr, start, big, 'rollout#2')
    seg = [list(e) if e[0] != 'p' else ['p', list(e[1])] for e in sched.log[n0:]]
    if path[-1] in view.absorbing:
        cap3 = max(0, T + cfg['cap_rel'])
        sub = Scheduler('replay', script=[(e[0], e[1]) for e in seg], cap=10 ** 6)
        tr3 = run(cap3, SimRandom(sub), 'rollout#3')
        sched.fire('F7_step_limit')
        ctx.probe({-1: 'cap_before_absorption', 0: 'cap_at_absorption', 1: 'cap_after_absorption'}[cfg['cap_rel']] if T + cfg['cap_rel'] >= 0 else 'cap_zero')
        path3, n3 = _check_mdp_rollout(ctx, view, pol_tab, tr3, start, cap3, f'rollout#3(cap={cap3},T={T})')
        ctx.check(path3 == path[:n3 + 1] and n3 == min(cap3, T), 'rollout-stop',
                  lambda: f"same decisions, cap {cap3}: visited {path3}, the uncapped roll-out visited {path} (absorbed after {T})")
    # 2b. fault F9: the policy is updated in place (same distribution objects, new probabilities) between roll-outs;
    #     from here on every clause refers to the updated table
    if stored is not None:
        new_tab = [{a: p / 8 for a, p in row} for row in cfg['pol2']]
        for s_, d_ in enumerate(stored):
            if cfg.get('update_style') == 'replace':
                d_.clear()
                d_.update({ak[a]: p for a, p in new_tab[s_].items()})
            else:
                for a in set(pol_tab[s_]) | set(new_tab[s_]):
                    d_[ak[a]] = new_tab[s_].get(a, 0.0)
        pol_tab[:] = new_tab
        sched.fire('F9_policy_updated_in_place')
        ctx.probe('policy_updated_in_place')
        for j in range(2):
            tr4 = run(cfg['cap'] if cfg['cap'] <= 60 else 20, rng, f'rollout#4.{j} (after the in-place policy update)')
            _check_mdp_rollout(ctx, view, pol_tab, tr4, start, cfg['cap'] if cfg['cap'] <= 60 else 20, f'rollout#4.{j} (after the in-place policy update)')
    # 3. Monte-Carlo evaluation
    runs.clear()
    nsim, ecap = cfg['nsim'], cfg['ecap']
    if nested is not None:
        hookN = ctx.nest_after(1 + cfg['nest'] % 23, nested)
    try:
        ev = pol.evaluate_on(mdp, n_simulations=nsim, max_steps=ecap, rng=rng) if cfg['policy'] != 'tabular' else \
            Policy.evaluate_on(pol, mdp, n_simulations=nsim, max_steps=ecap, rng=rng)
    except (Violation, Inconclusive):
        raise
    except Exception as e:
        raise Violation('exception', f"evaluate_on raised {type(e).__name__}: {e}")
    ctx.check(len(runs) == nsim, 'mc-count', lambda: f"evaluate_on made {len(runs)} roll-outs, n_simulations={nsim}")
    # returns are sums of up to ecap+1 rewards: two correct ways of adding them up differ by ~1e-16 of the largest partial sum,
    # which for rewards of the order 1e9 that nearly cancel is far more than 1e-9 of the result
    ATOL = 1e-9 + 1e-13 * max([abs(float(r)) for r in view.R.values()] + [0.0]) * (ecap + 1)
    iv = []
    refs = {True: ({}, {}), False: ({}, {})}      # closing state counted?  -> (state samples, action samples)
    for i, run_ in enumerate(runs):
        path_, n_ = _check_mdp_rollout(ctx, view, pol_tab, run_, None, ecap, f'evaluation roll-out {i}')
        rw = [st.get('reward', 0) for st in run_.steps]
        G = 0.0
        Gs = []
        for r in reversed(rw):
            G = r + g * G
            Gs.append(G)
        Gs = Gs[::-1]
        iv.append(Gs[0])
        for t, st in enumerate(run_.steps):
            s = sid[st['state']]
            a = aid[st['action']] if 'action' in st else None
            closing = t == len(run_.steps) - 1
            for conv in (True, False):
                if closing and not conv:
                    continue
                refs[conv][0].setdefault(s, []).append(Gs[t])
                refs[conv][1].setdefault((s, a), []).append(Gs[t])
    ctx.check(close(float(ev.initial_value), float(np.mean(iv)), 1e-9, ATOL), 'mc-average',
              lambda: f"initial_value {float(ev.initial_value)!r} != mean of the roll-outs' returns {float(np.mean(iv))!r}")
    try:
        got_sv = {sid[s]: float(v) for s, v in ev.state_value.items()}
        got_oc = {sid[s]: float(v) for s, v in ev.state_occupancy.items()}
        got_av = {}
        for s, row in ev.action_value.items():
            for a, v in row.items():
                if v != float('-inf'):
                    got_av[sid[s], (aid[a] if a is not None else None)] = float(v)
    except (KeyError, TypeError, AttributeError) as e:
        raise Violation('result-shape', f"evaluation result malformed: {type(e).__name__}: {e}")
    why = {}
    for conv in (True, False):
        sv, av = refs[conv]
        ok = set(got_sv) == set(sv) and set(got_oc) == set(sv)
        if not ok:
            why[conv] = f"states {sorted(got_sv)} vs visited {sorted(sv)}"
            continue
        for s, l in sv.items():
            if not close(got_sv[s], float(np.mean(l)), 1e-9, ATOL):
                ok = False
                why[conv] = f"state_value[{s}]={got_sv[s]!r} vs mean return {float(np.mean(l))!r}"
            if not close(got_oc[s], len(l) / nsim, 1e-9, ATOL):
                ok = False
                why[conv] = f"state_occupancy[{s}]={got_oc[s]!r} vs visits/n {len(l) / nsim!r}"
        if set(got_av) != set(av):
            ok = False
            why[conv] = f"action_value keys {sorted(got_av, key=str)} vs {sorted(av, key=str)}"
        else:
            for k, l in av.items():
                if not close(got_av[k], float(np.mean(l)), 1e-9, ATOL):
                    ok = False
                    why[conv] = f"action_value[{k}]={got_av[k]!r} vs mean {float(np.mean(l))!r}"
        if ok:
            ctx.probe('closing_state_counted' if conv else 'closing_state_not_counted')
            break
    else:
        raise Violation('mc-average', f"evaluation tables are not the averages of its own {nsim} roll-outs: counting the closing state: "
                        f"{why.get(True)}; not counting it: {why.get(False)}")
    ctx.clauses += 1
    # deterministic policy on deterministic model: exact truncated return
    det_model = all(len(view.T[s, a]) == 1 for s in range(view.N) for a in view.A[s]) and len(view.init) == 1
    if cfg['policy'] == 'deterministic' and det_model:
        s = next(iter(view.init))
        G, disc = 0.0, 1.0
        for t in range(ecap):
            if s in view.absorbing:
                break
            a = next(iter(pol_tab[s]))
            ns = next(iter(view.T[s, a]))
            G += disc * view.R[s, a, ns]
            disc *= g
            s = ns
        ctx.probe('deterministic_exact_eval')
        ctx.check(close(float(ev.initial_value), G, 1e-9, ATOL), 'mc-exact-deterministic',
                  lambda: f"deterministic policy on deterministic MDP: initial_value {float(ev.initial_value)!r} != exact truncated return {G!r}")
    return ctx.result()


def _check_returns(ctx, Policy, rewards, g, tag):
    try:
        rets = [float(x) for x in Policy.calc_returns(rewards, g)]
    except Exception as e:
        raise Violation('exception', f"calc_returns raised {type(e).__name__}: {e}")
    G = 0.0
    ref = []
    for r in reversed(rewards):
        G = r + g * G
        ref.append(G)
    ref = ref[::-1]
    atol = 1e-9 + 1e-13 * sum(abs(float(r)) for r in rewards)       # (see ATOL above)
    bad = [i for i, (a, b) in enumerate(zip(rets, ref)) if not close(a, b, 1e-9, atol)]
    ctx.check(len(rets) == len(ref) and not bad, 'returns-recursion',
              lambda: f"{tag}: calc_returns over {len(rewards)} rewards at discount {g}: entry {bad[0] if bad else '-'} is "
              f"{rets[bad[0]] if bad else None!r}, the backward recursion gives {ref[bad[0]] if bad else None!r} (lengths {len(rets)}/{len(ref)})")


# ---------------------------------------------------------------------- POMDP
def _exec_pomdp(pv, cfg, ctx, sched):
    from msdm.core.pomdp.tabularpomdp import Belief
    from msdm.core.pomdp.alphavectorpolicy import AlphaVectorPolicy
    from msdm.algorithms.qmdp import QMDPPolicy
    from msdm.core.pomdp.finitestatecontroller import StochasticFiniteStateController
    pomdp = make_pomdp(pv, ctx)
    sk, ak, ok, sid, aid, oid = pv.sk, pv.ak, pv.ok, pv.sid, pv.aid, pv.oid
    par = cfg['par']
    kind = cfg['policy']
    if kind == 'alpha':
        pol = AlphaVectorPolicy(pomdp, np.array(par['vectors']))
    elif kind == 'qmdp':
        pol = QMDPPolicy(pomdp, {sk[s]: {ak[a]: par['q'][s][a] for a in range(pv.nA)} for s in range(pv.nS)})
    else:
        pol = StochasticFiniteStateController(pomdp, np.array(par['As']), np.array(par['Ns']), np.array(par['ini']))
    start = cfg['start']
    ia = None
    if kind != 'fsc' and start is not None and pv.init.get(start, 0) <= 0:
        ss = tuple(sk[i] for i in range(pv.nS))
        ia = Belief(ss, tuple([1 / pv.nS] * pv.nS))
    if start is None:
        ctx.probe('start_sampled')
    elif start in pv.absorbing:
        ctx.probe('start_absorbing')
    rng = SimRandom(sched)

    def vec(ag):
        return np.asarray(ag[1] if isinstance(ag, Belief) else ag, dtype=float)

    def run(cap, r, tag):
        try:
            return pol.run_on(pomdp, initial_state=None if start is None else sk[start], initial_agentstate=ia, max_steps=cap, rng=r)
        except (Violation, Inconclusive):
            raise
        except Exception as e:
            raise Violation('exception', f"{tag}: run_on raised {type(e).__name__}: {e}")

    def validate(tr, cap, tag):
        ctx.probe('pomdp_rollouts')
        try:
            rows = [(sid[st.state], st.agentstate, aid[st.action] if st.action is not None else None,
                     sid[st.nextstate] if st.nextstate is not None else None, st.reward,
                     oid[st.observation] if st.observation is not None else None, st.nextagentstate) for st in tr]
        except (KeyError, TypeError, AttributeError) as e:
            raise Violation('result-shape', f"{tag}: malformed trajectory: {type(e).__name__}: {e}")
        ctx.check(len(rows) >= 1, 'rollout-start', f"{tag}: empty trajectory")
        s0 = rows[0][0]
        if start is not None:
            ctx.check(s0 == start, 'rollout-start', lambda: f"{tag}: starts in {s0}, requested {start}")
        else:
            ctx.check(pv.init.get(s0, 0) > 0, 'rollout-start', lambda: f"{tag}: sampled start {s0} has probability 0")
        ag0 = rows[0][1]
        exp0 = ia if ia is not None else pol.initial_agentstate()
        ctx.check(np.allclose(vec(ag0), vec(exp0), atol=1e-12), 'rollout-agentstate', lambda: f"{tag}: first agent state {ag0} != initial agent state {exp0}")
        for t, (s, ag, a, ns, r, o, nag) in enumerate(rows[:-1]):
            ctx.steps += 1
            ctx.check(s not in pv.absorbing, 'rollout-step', lambda: f"{tag}: step {t} acts in absorbing state {s}")
            try:
                ad = {aid[x]: p for x, p in pol.action_dist(ag).items()}
            except Exception as e:
                raise Violation('exception', f"{tag}: action_dist failed at step {t}: {type(e).__name__}: {e}")
            ctx.check(a is not None and ad.get(a, 0) > 0, 'rollout-step', lambda: f"{tag}: step {t} action {a} has probability 0 under the policy at its agent state ({ad})")
            ctx.check(pv.T[s, a].get(ns, 0) > 0, 'rollout-step', lambda: f"{tag}: step {t} successor {ns} impossible under ({s},{a})")
            ctx.check(r == pv.R[s, a, ns], 'rollout-step', lambda: f"{tag}: step {t} reward {r} != model {pv.R[s, a, ns]}")
            ctx.check(pv.Ob[a, ns].get(o, 0) > 0, 'rollout-step', lambda: f"{tag}: step {t} observation {o} impossible after ({a},{ns})")
            ctx.check(rows[t + 1][0] == ns, 'rollout-chain', lambda: f"{tag}: step {t} ends in {ns}, next starts in {rows[t + 1][0]}")
            try:
                own = pol.next_agentstate(ag, ak[a], ok[o])
            except Exception as e:
                raise Violation('exception', f"{tag}: next_agentstate failed at step {t}: {type(e).__name__}: {e}")
            ctx.check(np.allclose(vec(own), vec(nag), atol=1e-12) and np.allclose(vec(rows[t + 1][1]), vec(nag), atol=1e-12),
                      'rollout-agentstate', lambda: f"{tag}: step {t}: agent state does not follow the policy's own update")
        last, n = rows[-1][0], len(rows) - 1
        ctx.check(n <= cap, 'rollout-stop', lambda: f"{tag}: {n} steps exceed the cap {cap}")
        ctx.check(n == cap or last in pv.absorbing, 'rollout-stop', lambda: f"{tag}: stopped after {n} steps in non-absorbing {last} before cap {cap}")
        if n == cap:
            ctx.probe('stopped_by_cap')
        elif last in pv.absorbing:
            ctx.probe('stopped_by_absorption')
        return [r[0] for r in rows], n

    cap = cfg['cap']
    if cap == 0:
        ctx.probe('cap_zero')
    validate(run(cap, rng, 'rollout#1'), cap, 'rollout#1')
    if start is not None or True:
        n0 = len(sched.log)
        big = 25
        path, T = validate(run(big, rng, 'rollout#2'), big, 'rollout#2')
        if path[-1] in pv.absorbing:
            seg = [(e[0], e[1]) for e in sched.log[n0:]]
            cap3 = max(0, T + cfg['cap_rel'])
            sub = Scheduler('replay', script=seg, cap=10 ** 6)
            sched.fire('F7_step_limit')
            ctx.probe({-1: 'cap_before_absorption', 0: 'cap_at_absorption', 1: 'cap_after_absorption'}[cfg['cap_rel']] if T + cfg['cap_rel'] >= 0 else 'cap_zero')
            path3, n3 = validate(run(cap3, SimRandom(sub), 'rollout#3'), cap3, f'rollout#3(cap={cap3},T={T})')
            ctx.check(path3 == path[:n3 + 1] and n3 == min(cap3, T), 'rollout-stop',
                      lambda: f"same decisions, cap {cap3}: visited {path3}, the uncapped roll-out visited {path} (absorbed after {T})")
    return ctx.result()


def sample_repr(case, out):
    c = case['cfg']
    d = dict(index=case['index'], world=c['world'], policy=c['policy'], start=c['start'], cap=c['cap'], cap_rel=c['cap_rel'],
             keys=case['spec']['kind'], discount=case['spec']['gamma'], mode=case['sched']['mode'],
             decisions=(out.get('stats') or {}).get('decisions'), steps=(out.get('stats') or {}).get('steps'),
             first_decisions=(out.get('script') or [])[:10], status=out.get('status'))
    return d


def shrink(case):
    c = case['cfg']
    if c['world'] == 'mdp':
        yield from shr.config_candidates(case, {('cfg', 'nsim'): [1, 3], ('cfg', 'ecap'): [0, 1, 2], ('cfg', 'cap'): [0, 1, 2]})
        # model shrinking keeps the policy table aligned only when states are not renumbered: restrict to kind/gamma/reward
        for cand in shr.mdp_candidates(case, need_proper=False):
            if len(cand['spec']['trans']) == len(case['spec']['trans']) and cand['spec']['n'] == case['spec']['n']:
                ok = True
                v = MDPView(cand['spec'])
                for s, row in enumerate(c['pol']):
                    if any(a not in v.A.get(s, []) for a, p in row):
                        ok = False
                if ok:
                    yield cand
    else:
        yield from shr.config_candidates(case, {('cfg', 'cap'): [0, 1, 3]})

"""C13 - a fixed seed makes every randomised component reproducible and isolated."""
import os
import sys
import json
import copy
import random as _pyrandom
import subprocess
import hashlib

import numpy as np

from sim.core import Violation, Inconclusive, InjectedAbort, RandomProxy, FaithfulRandom, Scheduler, patched_random
from sim.ctx import RunCtx, gen_sched, digest_of, canon
from sim import scenarios as S
from sim import runner

PROP = 'C13'
QUICK_RUNS = 2500
THOROUGH_RUNS = 60000
QUICK_WALL = 120
THOROUGH_WALL = 1700
CHUNK = 20
XPROC_QUICK = dict(batches=4, per_batch=250, hashseeds=4)
XPROC_THOROUGH = dict(batches=32, per_batch=400, hashseeds=4)
RULE = ("one run = one scenario (seeded component x problem x parameters x seed) executed in a reference environment and in several "
        "perturbed ones drawn by the scheduler: other prior states of the global random/numpy/torch generators, interference "
        "injected mid-run at model call-backs, listener call-backs and private-stream draws, reused learner/planner objects, models "
        "with warm caches, a first run aborted by an exception from a model call-back, another seeded run nested inside a call-back of the run, and the unpatched library; plus batches "
        "of scenarios executed in fresh interpreters under different PYTHONHASHSEED values; distinct = distinct digest of (scenario, "
        "environment schedule, injection log); non-trivial = the reference run returned a result and >=1 perturbed environment was compared")
REAL = ["all seeded msdm components: LAOStar, LRTDP, AStarSearch, BreadthFirstSearch, QLearning, SARSA, ExpectedSARSA, DoubleQLearning, RMAX, "
        "FSCBoundedPolicyIteration, FSCGradientAscent, SemiMarkovDecisionProcess, ImplicitDistribution, Policy.run_on/evaluate_on, POMDPPolicy.run_on",
        "shipped domains GridWorld, WindyGridWorld, CliffWalking, Tiger, LoadUnload, HeavenOrHell", "the real Mersenne-Twister streams (logged, not altered)",
        "the process-global random, numpy.random and torch generators", "CPython hash randomisation (fresh interpreters)"]
STUB = ["generated table models behind msdm's model interface", "the co-tenant that draws from / reseeds the global generators", "canonical result digests"]
ASSUMPTIONS = ["hash randomisation is exercised through PYTHONHASHSEED values only", "cross-process digests round floats to 9 significant digits (summation order); in-process digests are exact"]

MODS = None


def _mods():
    global MODS
    if MODS is None:
        import msdm.algorithms.laostar as a
        import msdm.algorithms.lrtdp as b
        import msdm.algorithms.search as c
        import msdm.algorithms.tdlearning as d
        import msdm.algorithms.rmax as e
        import msdm.core.semimdp.semimdp as f
        import msdm.core.distributions.distributions as g
        MODS = [a, b, c, d, e, f, g]
    return MODS


def preload():
    _mods()
    import msdm.algorithms.fscboundedpolicyiteration  # noqa
    import msdm.algorithms.fscgradientascent  # noqa
    import msdm.algorithms.qmdp  # noqa
    import msdm.core.pomdp.alphavectorpolicy  # noqa
    import msdm.domains  # noqa
    import msdm.domains.gridmdp.windygridworld  # noqa
    import msdm.domains.cliffwalking, msdm.domains.tiger, msdm.domains.loadunload, msdm.domains.heavenorhell  # noqa


ENVS = ('prior', 'midrun', 'midrun', 'reuse', 'warm', 'abort', 'unpatched', 'twin', 'nested', 'shared', 'again')


def gen_case(rng, tier, idx):
    sc = S.gen_scenario(rng)
    k = rng.randint(2, 4)
    envs = [rng.choice(ENVS) for _ in range(k)]
    if sc['component'] in ('bpi', 'ga') and 'reuse' not in envs:
        envs.append('reuse')
    if not S.reusable(sc['component']):
        envs = [e if e != 'reuse' else 'prior' for e in envs]
    if _twin_problem(sc) is None:
        envs = [e if e != 'twin' else 'warm' for e in envs]
    if sc['component'] == 'ga':
        envs.append('allocfail')
    envs = [e if e != 'allocfail' or sc['component'] == 'ga' else 'prior' for e in envs]
    if sc['component'] == 'rollout_pomdp':
        if 'shared' not in envs:
            envs.append('shared')
    elif sc['component'] not in ('semimdp', 'rollout_mdp', 'evaluate_mdp') or sc['problem'].get('type') != 'mdp':
        envs = [e if e != 'shared' else 'nested' for e in envs]
    elif 'shared' not in envs and rng.random() < 0.5:
        envs.append('shared')
    return dict(kind='inproc', scenario=sc, envs=envs, inject_p=rng.choice((0.02, 0.1, 0.5)),
                sched=dict(seed=f"sched:{rng.getrandbits(64)}", mode='P'))


def _twin_problem(sc):
    """The same problem with keys that compare equal to the original's but are of another type
    (2.0 for 2, frozendict(s=2.0) for frozendict(s=2)): whatever the process remembers about the twin,
    keyed by equality or identity, must not leak into the run on the original."""
    p = sc['problem']
    kind = (p.get('spec') or {}).get('kind')
    if p.get('type') not in ('mdp', 'pomdp', 'graph') or kind not in ('int', 'fd'):
        return None
    q = copy.deepcopy(p)
    q['spec']['kind'] = 'float' if kind == 'int' else 'fdf'
    return q


# ------------------------------------------------------------ global generators
def gset(x):
    import torch
    _pyrandom.seed(x)
    np.random.seed(x % (2 ** 32))
    torch.manual_seed(x)


def gsnap():
    import torch
    st = np.random.get_state()
    return (_pyrandom.getstate(), st[1].tobytes(), st[2], st[3], st[4], torch.random.get_rng_state().numpy().tobytes())


def gdiff(a, b):
    out = []
    if a[0] != b[0]:
        out.append('random')
    if a[1:5] != b[1:5]:
        out.append('numpy.random')
    if a[5] != b[5]:
        out.append('torch')
    return out


class Cotenant:
    """Fault F3: something else in the process uses the global generators."""

    def __init__(self, prng, sched, p):
        self.prng = prng
        self.sched = sched
        self.p = p
        self.last = None
        self.where = 'start'
        self.log = []
        self.active = False

    def arm(self):
        self.last = gsnap()
        self.where = 'start'
        self.active = True

    def verify(self, where, comp):
        now = gsnap()
        d = gdiff(self.last, now)
        if d:
            raise Violation('isolation', f"{comp}: the global generator(s) {d} were advanced or reseeded by msdm between '{self.where}' and '{where}' "
                            f"although a seed / generator was supplied", dict(key=f"isolation/{comp}/{'+'.join(d)}"))

    def event(self, where, comp):
        if not self.active:
            return
        if self.prng.random() >= self.p:
            return
        self.verify(where, comp)
        import torch
        k = self.prng.randrange(7)
        x = self.prng.getrandbits(31)
        if k == 0:
            _pyrandom.random()
        elif k == 1:
            _pyrandom.seed(x)
        elif k == 2:
            np.random.rand()
        elif k == 3:
            np.random.seed(x)
        elif k == 4:
            torch.rand(1)
        elif k == 5:
            torch.manual_seed(x)
        else:
            _pyrandom.shuffle([1, 2, 3])
            np.random.randint(10)
        self.sched.fire('F3_global_rng_interference')
        # only the kind is logged: which call-back a given injection lands on may depend on msdm's own
        # (hash-seed dependent) iteration order, which is not the harness's nondeterminism
        self.log.append(k)
        self.last = gsnap()
        self.where = where


def _run(sc, ctx, sched, *, patched=True, cot=None, algo=None, problem=None, warm=False, abort_at=None, nest=None, share=False):
    """One execution of the scenario.  Returns (canonical result, algo, problem)."""
    comp = sc['component']
    st = dict(n=0)

    def on_cb(name, ids=None):
        st['n'] += 1
        if abort_at is not None and st['n'] == abort_at:
            sched.fire('F6_abort_and_rerun')
            raise InjectedAbort()
        if cot is not None:
            cot.event(f"{name}#{st['n']}", comp)
        if nest is not None and st['n'] == nest['at'] and 'out' not in nest:
            # fault F10: while this run is suspended inside a call-back into user code, that code runs ANOTHER seeded
            # component to completion (a model whose reward consults a planner, an option that plans lazily, a listener
            # that evaluates the current policy with roll-outs); both runs are live in the process at the same time
            sched.fire('F10_nested_run')
            saved = (ctx.cb_hooks, sched.hooks, ctx.last)
            try:
                nest['out'] = _run(nest['scenario'], ctx, sched, patched=patched)[0]
            finally:
                ctx.cb_hooks, sched.hooks, ctx.last = saved

    ctx.cb_hooks = [on_cb]
    sched.hooks = [lambda kind: on_cb('draw')] if (cot is not None or abort_at is not None) else []
    env = S.Env(ctx=ctx, rng_factory=(lambda seed: FaithfulRandom(seed, sched)) if patched else None,
                listener_cb=lambda: on_cb('listener'), share=share)
    if problem is None:
        problem = S.build_problem(sc['problem'], ctx)
        if warm and problem is not None:
            S.warm_caches(problem)
    if algo is None:
        algo = S.make_algo(sc, env)
    proxy = RandomProxy(sched, faithful=True)
    try:
        if patched:
            with patched_random(_mods(), proxy):
                res = S.run_component(sc, problem, algo, env)
        else:
            res = S.run_component(sc, problem, algo, env)
        out = dict(result=res)
    except (Violation, Inconclusive, InjectedAbort):
        raise
    except Exception as e:
        out = dict(exception=type(e).__name__, message=str(e)[:200])
    finally:
        ctx.cb_hooks = []
        sched.hooks = []
    if patched and proxy.global_touches:
        raise Violation('isolation', f"{comp}: reached for the process-global `random` module ({sorted(set(proxy.global_touches))}) although a seed was supplied",
                        dict(key=f"isolation/{comp}/global-random-touched"))
    out['n_cb'] = st['n']
    return out, algo, problem


def execute(case, script=None):
    if case.get('kind') == 'xproc':
        return _execute_xproc(case)
    sc = case['scenario']
    comp = sc['component']
    ctx = RunCtx(PROP, None)
    ctx.CB_CAP = 10 ** 8
    ctx.declare_probes('reference_ok', 'env_prior', 'env_midrun', 'env_reuse', 'env_warm', 'env_abort', 'env_unpatched', 'env_twin', 'env_nested', 'env_shared', 'env_again', 'env_allocfail', 'allocation_failures_delivered', 'nested_runs_delivered', 'injections',
                       'aborts_delivered', 'seed_zero', 'string_keys', 'shipped_domain', 'equally_seeded_pairs')
    sched = Scheduler(case['sched']['seed'], mode='P', cap=10 ** 9)
    ctx.sched = sched
    prng = sched.prng
    if sc['seed'] == 0:
        ctx.probe('seed_zero')
    if sc['problem'].get('type') == 'domain':
        ctx.probe('shipped_domain')
    elif sc['problem'].get('spec', {}).get('kind') in ('str', 'tuple', 'fd'):
        ctx.probe('string_keys')
    injlog = []
    try:
        # ---------------- reference environment
        gset(1000003)
        before = gsnap()
        ref, _, _ = _run(sc, ctx, sched)
        after = gsnap()
        d = gdiff(before, after)
        ctx.check(not d, 'isolation', lambda: f"{comp}: the run advanced or reseeded the global generator(s) {d} although a seed / generator was supplied",
                  key=f"isolation/{comp}/{'+'.join(d)}")
        if 'result' in ref:
            ctx.probe('reference_ok')
            for label, a_, b_ in (ref['result'].get('must_equal') or []):
                ctx.probe('equally_seeded_pairs')
                ctx.check(a_ == b_, 'reproducible', lambda: f"{label}: results differ: {_first_diff(a_, b_)}",
                          key=f"reproducible/{comp}/equally-seeded-generators")
        refd = digest_of(ref.get('result', ref.get('exception')))

        def compare(out, envname):
            ctx.clauses += 1
            if 'result' in ref and 'exception' in out:
                raise Violation('reproducible', f"{comp} [{envname}]: raised {out['exception']}: {out['message']} where the reference run returned a result",
                                dict(key=f"reproducible/{comp}/{envname}/exception"))
            got = digest_of(out.get('result', out.get('exception')))
            if got != refd:
                raise Violation('reproducible', f"{comp} [{envname}]: result differs from the reference run with the same problem, parameters and seed {sc['seed']}: "
                                f"{_first_diff(ref.get('result'), out.get('result'))}", dict(key=f"reproducible/{comp}/{envname}"))

        for ei, envname in enumerate(case['envs']):
            ctx.probe('env_' + envname)
            if envname == 'prior':
                gset(7 + 13 * ei + prng.getrandbits(20))
                b = gsnap()
                out, _, _ = _run(sc, ctx, sched)
                d = gdiff(b, gsnap())
                ctx.check(not d, 'isolation', lambda: f"{comp}: the run advanced or reseeded the global generator(s) {d}", key=f"isolation/{comp}/{'+'.join(d)}")
                compare(out, 'other-prior-global-state')
            elif envname == 'midrun':
                gset(prng.getrandbits(30))
                cot = Cotenant(prng, sched, case['inject_p'])
                cot.arm()
                out, _, _ = _run(sc, ctx, sched, cot=cot)
                cot.verify('end of run', comp)
                ctx.probe('injections', len(cot.log))
                injlog.append(cot.log)
                compare(out, 'global-interference-mid-run')
            elif envname == 'warm':
                gset(5)
                out, _, _ = _run(sc, ctx, sched, warm=True)
                compare(out, 'warm-model-caches')
            elif envname == 'unpatched':
                gset(6)
                out, _, _ = _run(sc, ctx, sched, patched=False)
                compare(out, 'unpatched-library')
            elif envname == 'twin':
                gset(4)
                sched.fire('F5b_process_history')
                try:
                    _run(dict(sc, problem=_twin_problem(sc)), ctx, sched)      # fresh objects, only the process is shared
                except Violation:
                    raise
                out, _, _ = _run(sc, ctx, sched)
                compare(out, 'after-an-equal-keyed-twin-problem-in-the-same-process')
            elif envname == 'allocfail':
                # fault F11 (failing allocation): the k-th tensor allocation of the run is refused - what a controller too
                # large for memory meets - and the caller carries on.  The failed seeded call must leave the global
                # generators as they were, and the next run must be the reference run
                import torch
                gset(14)
                b = gsnap()
                real = torch.rand
                box = dict(n=0, k=1 + prng.randrange(3))

                def refusing(*a, **k):
                    box['n'] += 1
                    if box['n'] == box['k']:
                        sched.fire('F11_allocation_failure')
                        raise RuntimeError("[injected] DefaultCPUAllocator: can't allocate memory")
                    return real(*a, **k)
                torch.rand = refusing
                try:
                    died, _, _ = _run(sc, ctx, sched)
                finally:
                    torch.rand = real
                if 'exception' in died:
                    ctx.probe('allocation_failures_delivered')
                d = gdiff(b, gsnap())
                ctx.check(not d, 'isolation', lambda: f"{comp}: a seeded run that died on a refused allocation left the global generator(s) {d} advanced or reseeded",
                          key=f"isolation/{comp}/after-failed-allocation/{'+'.join(d)}")
                out, _, _ = _run(sc, ctx, sched)
                compare(out, 'after-a-run-that-died-on-a-refused-allocation')
            elif envname == 'again':
                # the SAME problem object serves two seeded runs one after the other: first this scenario or another seeded
                # component, then this scenario (fresh planner / learner objects); the model must come out as it went in
                gset(13)
                sched.fire('F5_same_model_object_again')
                problem = S.build_problem(sc['problem'], ctx)
                which = prng.randrange(2)
                if which == 0 or sc['problem'].get('type') != 'mdp' or comp in ('rmax', 'semimdp'):
                    scA = sc
                else:
                    scA = S.gen_scenario(_pyrandom.Random(f"again:{prng.getrandbits(40)}"), component=prng.choice(('lrtdp', 'laostar', 'qlearning', 'sarsa', 'rollout_mdp')))
                    scA = dict(scA, problem=sc['problem'])
                    if 'h' in scA['params']:
                        scA['params']['h'] = S._upper_bound(sc['problem'])
                try:
                    _run(scA, ctx, sched, problem=problem)
                except Violation:
                    raise
                out, _, _ = _run(sc, ctx, sched, problem=problem)
                compare(out, 'same-model-object-used-by-an-earlier-seeded-run')
            elif envname == 'shared':
                gset(12)
                sched.fire('F10_shared_object')
                out, _, _ = _run(sc, ctx, sched, share=True)
                compare(out, 'policy-object-rolled-out-before-with-other-seeds' if comp == 'rollout_pomdp' else 'option-or-policy-object-first-used-on-another-model')
            elif envname == 'nested':
                gset(11)
                which = prng.randrange(3)
                if which == 0:
                    scB, refB = sc, ref                 # the same scenario on fresh objects: same seed, same keys, same names
                else:
                    scB = S.gen_scenario(_pyrandom.Random(f"nested:{prng.getrandbits(40)}"),
                                         component=comp if which == 1 else None)
                    scB['seed'] = sc['seed'] if which == 1 else scB['seed']
                    refB, _, _ = _run(scB, ctx, sched)
                nest = dict(at=1 + prng.randrange(max(1, ref.get('n_cb', 1))), scenario=scB)
                out, _, _ = _run(sc, ctx, sched, nest=nest)
                compare(out, 'another-seeded-run-nested-inside')
                if 'out' in nest:
                    ctx.probe('nested_runs_delivered')
                    ctx.clauses += 1
                    gotB, wantB = digest_of(nest['out'].get('result', nest['out'].get('exception'))), digest_of(refB.get('result', refB.get('exception')))
                    if gotB != wantB:
                        raise Violation('reproducible', f"{scB['component']} run nested inside a call-back of a running {comp}: result differs from the same scenario run on its own "
                                        f"(seed {scB['seed']}): {_first_diff(refB.get('result'), nest['out'].get('result'))}", dict(key=f"reproducible/{scB['component']}/nested-inside-another-run"))
            elif envname == 'reuse':
                gset(8)
                sched.fire('F5_object_reuse')
                # the object's first use is on another problem, or (every other time) on this very scenario: train / plan twice
                sc2 = dict(sc, problem=S.other_problem(sc)) if prng.randrange(2) else sc
                try:
                    _, algo, _ = _run(sc2, ctx, sched)
                except Violation:
                    raise
                out, _, _ = _run(sc, ctx, sched, algo=algo)
                compare(out, 'reused-object')
            elif envname == 'abort':
                gset(9)
                ncb = max(1, ref.get('n_cb', 1))
                at = 1 + prng.randrange(ncb)
                algo = problem = None
                try:
                    env = S.Env(ctx=ctx, listener_cb=lambda: None)
                    problem = S.build_problem(sc['problem'], ctx)
                    algo = S.make_algo(sc, S.Env(ctx=ctx, listener_cb=lambda: ctx.cb('listener')))
                    _run(sc, ctx, sched, algo=algo, problem=problem, abort_at=at)
                except InjectedAbort:
                    ctx.probe('aborts_delivered')
                # clean run on the same objects
                algo2 = S.make_algo(sc, S.Env()) if algo is None else algo
                out, _, _ = _run(sc, ctx, sched, algo=algo2 if (S.reusable(comp) or comp == 'semimdp') else None, problem=problem)
                compare(out, 'rerun-after-abort')
    except (Violation, Inconclusive) as e:
        raise ctx.attach_partial(e)
    out = ctx.result()
    out['digest'] = digest_of([sc, case['envs'], injlog, refd])
    out['nontrivial'] = 'result' in ref and ctx.clauses > 0
    return out


def _first_diff(a, b, path=''):
    if type(a) != type(b):
        return f"at {path or '.'}: {str(a)[:120]} vs {str(b)[:120]}"
    if isinstance(a, dict):
        for k in sorted(set(a) | set(b), key=str):
            if a.get(k) != b.get(k):
                return _first_diff(a.get(k), b.get(k), f"{path}.{k}")
    if isinstance(a, list):
        for i, (x, y) in enumerate(zip(a, b)):
            if x != y:
                return _first_diff(x, y, f"{path}[{i}]")
        if len(a) != len(b):
            return f"at {path}: lengths {len(a)} vs {len(b)}"
    return f"at {path or '.'}: {str(a)[:120]} vs {str(b)[:120]}"


# ------------------------------------------------------------------ cross-process
def _child_cmd():
    return ['/venv/bin/python', os.path.join(runner.VERIF, 'checks', 'c13_child.py')]


def run_children(jobs, timeout=900):
    """jobs: list of (hashseed, payload dict).  Returns list of outputs (dict idx->digest) in order."""
    procs = []
    env0 = dict(os.environ)
    env0['OMP_NUM_THREADS'] = '1'
    for hs, payload in jobs:
        env = dict(env0)
        env['PYTHONHASHSEED'] = str(hs)
        p = subprocess.Popen(_child_cmd(), stdin=subprocess.PIPE, stdout=subprocess.PIPE, stderr=subprocess.PIPE, env=env, text=True)
        procs.append((p, payload))
    outs = []
    # feed and collect (payloads are small)
    import threading
    res = [None] * len(procs)

    def comm(i, p, payload):
        try:
            o, e = p.communicate(json.dumps(payload), timeout=timeout)
            res[i] = (p.returncode, o, e)
        except subprocess.TimeoutExpired:
            p.kill()
            res[i] = (-9, '', 'timeout')
    th = [threading.Thread(target=comm, args=(i, p, pl)) for i, (p, pl) in enumerate(procs)]
    for t in th:
        t.start()
    for t in th:
        t.join()
    for rc, o, e in res:
        if rc != 0:
            raise RuntimeError(f"C13 child failed rc={rc}: {e[-2000:]}")
        outs.append(json.loads(o.strip().splitlines()[-1]))
    return outs


def xproc_scenario(seed, i):
    rng = _pyrandom.Random(f"{seed}:C13:xproc:{i}")
    # keys whose hash (or order) depends on the interpreter's hash seed: strings, tuples of strings, frozendicts
    sc = S.gen_scenario(rng, component=S.COMPONENTS[i % len(S.COMPONENTS)], kinds=('str', 'tuple', 'fd', 'fd', 'int'))
    return sc


def _execute_xproc(case):
    sc = case['scenario']
    hs = case['hashseeds']
    if case.get('twin'):
        tw = dict(sc, problem=_twin_problem(sc))
        outs = run_children([(hs[0], dict(scenarios=[sc])), (hs[0], dict(scenarios=[sc], pre={'0': tw}))])
        ds = [o['0'] for o in outs]
        ctx = RunCtx(PROP, None)
        ctx.clauses += 1
        if ds[0]['digest'] != ds[1]['digest']:
            raise Violation('process-history', f"{sc['component']}: same problem, parameters and seed {sc['seed']} give a different result in an interpreter that "
                            f"first ran an equal-keyed twin problem (keys of another type that compare equal): {_first_diff(ds[0]['result'], ds[1]['result'])}",
                            dict(key=f"process-history/{sc['component']}/{_xkey(sc)}"))
        out = ctx.result()
        out['digest'] = digest_of([sc, hs, 'twin'])
        out['nontrivial'] = True
        return out
    outs = run_children([(h, dict(scenarios=[sc])) for h in hs])
    ctx = RunCtx(PROP, None)
    ctx.clauses += 1
    ds = [o['0'] for o in outs]
    if len(set(d['digest'] for d in ds)) > 1:
        raise Violation('hash-seed', f"{sc['component']}: same problem, parameters and seed {sc['seed']} give different results in interpreters with "
                        f"PYTHONHASHSEED={hs}: {_first_diff(ds[0]['result'], ds[1]['result'])}",
                        dict(key=f"hash-seed/{sc['component']}/{_xkey(sc)}"))
    out = ctx.result()
    out['digest'] = digest_of([sc, hs])
    out['nontrivial'] = True
    return out


def _xkey(sc):
    p = sc['problem']
    if p.get('type') == 'domain':
        return p['name']
    return p.get('type', 'none') + '-' + str(p.get('spec', {}).get('kind'))


def extra_phase(seed, tier, workers):
    """F4: batches of scenarios in fresh interpreters under different hash seeds."""
    cfg = XPROC_QUICK if tier == 'quick' else XPROC_THOROUGH
    rng = _pyrandom.Random(f"{seed}:C13:xproc-plan")
    summaries = []
    batches = []
    for b in range(cfg['batches']):
        idxs = list(range(b * cfg['per_batch'], (b + 1) * cfg['per_batch']))
        scs = [xproc_scenario(seed, i) for i in idxs]
        hss = [0] + [rng.randrange(1, 2 ** 32) for _ in range(cfg['hashseeds'] - 1)]
        batches.append((idxs, scs, hss))
    # run up to `workers` children at a time
    def twins(scs):
        return {str(j): dict(sc, problem=_twin_problem(sc)) for j, sc in enumerate(scs) if _twin_problem(sc) is not None}
    # per batch: one child per hash seed, plus one more under the first hash seed that runs each scenario's twin first
    jobs = []
    for (idxs, scs, hss) in batches:
        jobs.extend((h, dict(scenarios=scs)) for h in hss)
        jobs.append((hss[0], dict(scenarios=scs, pre=twins(scs))))
    outs = []
    for i in range(0, len(jobs), max(1, workers)):
        outs.extend(run_children(jobs[i:i + max(1, workers)]))
    k = 0
    for (idxs, scs, hss) in batches:
        per = outs[k:k + len(hss)]
        twin_out = outs[k + len(hss)]
        k += len(hss) + 1
        for j, (i, sc) in enumerate(zip(idxs, scs)):
            ds = [o[str(j)] for o in per]
            if _twin_problem(sc) is not None:
                tsumm = dict(index=f"xproc-twin:{i}", status='ok', digest=digest_of([sc, hss[0], 'twin']), nontrivial=True, wall=0.0, known=[],
                             stats=dict(decisions=0, steps=0, fired={'F5b_process_history': 1}, probes={'xproc_twin_scenarios': 1}))
                if twin_out[str(j)]['digest'] != ds[0]['digest']:
                    tsumm.update(status='violation', clause='process-history', key=f"process-history/{sc['component']}/{_xkey(sc)}",
                                 message=f"{sc['component']}: same problem, parameters and seed {sc['seed']} give a different result in an interpreter that first ran an "
                                         f"equal-keyed twin problem: {_first_diff(ds[0]['result'], twin_out[str(j)]['result'])}",
                                 case=dict(kind='xproc', twin=True, scenario=sc, hashseeds=[hss[0]], verif_seed=seed, index=f"xproc-twin:{i}"), script=None)
                summaries.append(tsumm)
            summ = dict(index=f"xproc:{i}", status='ok', digest=digest_of([sc, hss]), nontrivial=True, wall=0.0, known=[],
                        stats=dict(decisions=0, steps=0, fired={'F4_hash_seed': len(hss)}, probes={'xproc_scenarios': 1,
                                   'xproc_string_or_domain': int(_xkey(sc) not in ('mdp-int', 'graph-int', 'pomdp-int', 'none-None'))}))
            first = ds[0]['digest']
            bad = [hss[m] for m, d in enumerate(ds) if d['digest'] != first]
            if bad:
                other = next(d for d in ds if d['digest'] != first)
                case = dict(kind='xproc', scenario=sc, hashseeds=[hss[0], bad[0]], verif_seed=seed, index=f"xproc:{i}")
                summ.update(status='violation', clause='hash-seed', key=f"hash-seed/{sc['component']}/{_xkey(sc)}",
                            message=f"{sc['component']}: same problem, parameters and seed {sc['seed']} give different results in interpreters with "
                                    f"PYTHONHASHSEED={[hss[0], bad[0]]}: {_first_diff(ds[0]['result'], other['result'])}",
                            case=case, script=None)
            if j < 2 and idxs[0] == 0:
                summ['sample'] = dict(index=f"xproc:{i}", component=sc['component'], problem=_xkey(sc), seed=sc['seed'], hashseeds=hss,
                                      digests=[d['digest'] for d in ds])
            summaries.append(summ)
    return summaries


def sample_repr(case, out):
    sc = case['scenario']
    return dict(index=case['index'], component=sc['component'], problem=_xkey(sc), seed=sc['seed'], params=sc['params'], envs=case.get('envs'),
                inject_p=case.get('inject_p'), faults=(out.get('stats') or {}).get('fired'), status=out.get('status'))


def shrink(case):
    if case.get('kind') == 'xproc':
        return
    # fewer environments first
    envs = case['envs']
    if len(envs) > 1:
        for i in range(len(envs)):
            c = copy.deepcopy(case)
            c['envs'] = [envs[i]]
            yield c
    sc = case['scenario']
    for k, vals in (('episodes', [1, 2]), ('iterations', [1, 2]), ('nsim', [2]), ('cap', [3, 5])):
        if k in sc['params']:
            for v in vals:
                if v < sc['params'][k]:
                    c = copy.deepcopy(case)
                    c['scenario']['params'][k] = v
                    yield c
                    break
    if sc['problem'].get('type') == 'mdp':
        from sim import shrink as shr
        fake = dict(spec=sc['problem']['spec'])
        for cand in shr.mdp_candidates(fake, need_proper=True, uniform_actions=(sc['component'] == 'rmax')):
            if cand['spec']['kind'] != sc['problem']['spec']['kind']:
                continue
            c = copy.deepcopy(case)
            c['scenario']['problem']['spec'] = cand['spec']
            yield c

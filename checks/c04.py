"""C04 - LRTDP stays an upper bound and ends within the error margin of optimal."""
import numpy as np

from sim.core import Violation, Inconclusive, InjectedAbort, RandomProxy, patched_random
from sim.models import nested_variant_spec, rare_catastrophe_spec, gen_mdp_spec, MDPView, make_mdp, sibling_mdp_spec, rotated_probability_spec, update_model_in_place
from sim.refsolve import optimal_values, evaluate, game_W
from sim.heur import gen_heuristic, build_heuristic, is_monotone
from sim.ctx import RunCtx, make_scheduler, gen_sched, construct
from sim import shrink as shr

PROP = 'C04'
QUICK_RUNS = 60000
THOROUGH_RUNS = 1500000
QUICK_WALL = 110
THOROUGH_WALL = 1500
CORPUS_VARIANTS = True      # past findings are replayed under every key kind and action relabelling
CHUNK = 25
RULE = ("one run = one generated proper table MDP (discounted or not, initial mass possibly on absorbing states) x admissible heuristic "
        "(monotone: constant bound / exact / exact+constant; merely admissible: per-state noisy slack; arbitrary values at absorbing "
        "states) x error margin x action-order option, the scheduler deciding every trial's start state, every sampled successor and "
        "every action shuffle (proportional, uniform, rare-biased, then cooperative so that trials end); distinct = distinct "
        "decision-log digest; non-trivial = >=1 decision and >=1 oracle clause")
REAL = ["msdm.algorithms.lrtdp.LRTDP (unmodified)", "msdm.core.utils.dictutils.defaultdict2", "msdm.core.distributions sampling path", "QuickTabularMDP wrapper"]
STUB = ["table MDP behind msdm's model interface", "random.Random stream (SimRandom)", "reference value iteration, exact policy evaluation, expected steps to absorption"]
ASSUMPTIONS = ["the eps*N clauses are applied with every admissible heuristic; value monotonicity and the Bonet-Geffner trial bound only with monotone ones (their hypothesis)",
               "proper MDPs with <= 6 non-absorbing states (4%: 10-20), tolerances relative to the value and to 1e-15 of the problem's value scale", "'reported values' = entries the result actually stores (V, Q, initial_value)"]
from sim.models import SEAM_RANGES  # noqa: E402
ASSUMPTIONS = ASSUMPTIONS + [SEAM_RANGES]


def _size(rng):
    # mostly small models (<= 6 non-absorbing states); a few per cent are larger
    return dict(min_states=10, max_states=20, max_actions=4) if rng.random() < 0.04 else {}


def preload():
    import msdm.algorithms.lrtdp  # noqa


def gen_case(rng, tier, idx):
    # 15% of runs: the configuration in which the order of tied actions matters most - the model hands out ONE list
    # object for every state (QuickTabularMDP(actions=[...]) does), actions are shuffled, rewards are integers and the
    # heuristic is the optimistic constant, so exact Q ties between a verified and an unexplored action are common
    tie_cfg = rng.random() < 0.15
    if tie_cfg:
        spec = gen_mdp_spec(rng, proper=True, discounts=(1.0, 1.0, 0.5), uniform_actions=True, min_states=3,
                            rewards=rng.choice(((-1.0, -2.0, -1.0, -3.0), (0.0, -1.0), (-1.0, -1.0, -2.0))))
        h = gen_heuristic(rng, kinds=('zero', 'zero', 'const'))
        cfg = dict(heur=h, eps=rng.choice((1e-2, 1e-3)), rao=True, seed=rng.choice((0, 1, 9)),
                   reuse=None, alias='shared')
    else:
        spec = gen_mdp_spec(rng, extreme=True, leftover_abs=rng.random() < 0.12, **_size(rng), proper=True, discounts=(0.999,) if rng.random() < 0.02 else (0.5, 0.9, 0.95, 1.0, 1.0), uniform_actions=rng.random() < 0.3,
                            rewards=rng.choice((None, None, (-2.0, -1.0, -1.0, 0.0, 1.0, 0.5), (-1.0, -2.0, -1.0, -3.0), (0.0, -1.0), (0.0,))))
        cfg = dict(heur=gen_heuristic(rng), eps=(10.0 if rng.random() < 0.6 else 1e-9) if rng.random() < 0.04 else rng.choice((1e-2, 1e-3, 1e-5)), rao=rng.random() < 0.6, seed=rng.choice((0, 1, 9, None)),
                   reuse=rng.randrange(1000) if rng.random() < 0.2 else None, alias=rng.choice(('fresh', 'fresh', 'cached', 'shared', 'tuple')), cap_exact=rng.random() < 0.25,
                   model_update=rng.random() < 0.1)
        if rng.random() < 0.1:
            cfg.update(nest=rng.randrange(1000), cap_exact=False)       # (the F7 replay re-uses the decision log of one uninterrupted run)
    if not tie_cfg and rng.random() < 0.01:
        # a 1e-9 branch into a pit that costs 1e10 to leave: a successor can be nearly impossible and still decide the optimum
        spec = rare_catastrophe_spec(rng)
        cfg['model_update'] = False
        cfg['reuse'] = None
        cfg['eps'] = rng.choice((1e-2, 1e-3))
    plain = idx % 4 == 0
    sched = gen_sched(rng, ('P',) if plain else ('P', 'U', 'R', 'R'), budget_choices=(20, 100, 400, 2000), cap=300000)
    return dict(spec=spec, cfg=cfg, sched=sched)


def execute(case, script=None):
    import msdm.algorithms.lrtdp as lr
    view = MDPView(case['spec'])
    ctx = RunCtx(PROP, view)
    ctx.W = game_W(view)
    ctx.declare_probes('absorbing_initial_state', 'absorbing_initial_labelled_by_entry', 'monotone_heuristic', 'non_monotone_heuristic',
                       'nonzero_heuristic_at_absorbing', 'unproductive_trial', 'trial_events', 'timestep_events', 'undiscounted', 'planner_reused', 'trial_cap_exact', 'rerun_after_abort', 'model_updated_in_place', 'nested_run', 'constructed_by_position')
    sched = make_scheduler(case, script, ctx)
    try:
        return _execute(lr, view, case['cfg'], ctx, sched)
    except (Violation, Inconclusive) as e:
        raise ctx.attach_partial(e)


def _execute(lr, view, cfg, ctx, sched):
    rview = None
    if cfg.get('model_update'):
        rview = MDPView(rotated_probability_spec(view.spec))
        if any(w == float('inf') for w in game_W(rview).values()):
            rview = None
    if rview is not None:
        # fault F9 for models: planned on with rotated probabilities first, then the model's own distribution objects are
        # updated in place to this workload's probabilities and the real planning run uses the same model object
        mdp = make_mdp(rview, ctx, alias=cfg.get('alias', 'fresh'), stored_dists=True)
    else:
        mdp = make_mdp(view, ctx, alias=cfg.get('alias', 'fresh'))
    sk, ak, sid, aid = view.sk, view.ak, view.sid, view.aid
    g, eps = view.gamma, cfg['eps']
    Vs, Qs = optimal_values(view)
    Vs = [float(x) for x in Vs]
    htab = build_heuristic(cfg['heur'], view, Vs)
    mono = is_monotone(htab, view)
    ctx.probe('monotone_heuristic' if mono else 'non_monotone_heuristic')
    if any(htab[s] != 0 for s in view.absorbing):
        ctx.probe('nonzero_heuristic_at_absorbing')
    if g == 1.0:
        ctx.probe('undiscounted')
    abs_init = [s for s in view.init if s in view.absorbing]
    if abs_init:
        ctx.probe('absorbing_initial_state')
    v0 = sum(p * Vs[s] for s, p in view.init.items())
    nonabs = [s for s in range(view.N) if s not in view.absorbing]
    trial_bound = view.N + sum(max(0.0, htab[s] - Vs[s]) for s in nonabs) / eps + 1
    vscale = max([abs(float(v)) for v in Vs] + [abs(float(r)) for r in view.R.values()] + [0.0]) / (1 - g if g < 1 else 1.0)

    def one_run(the_sched, iterations_cap, tag, allow_reuse):
        st = dict(prevV={}, solved_val={}, trials=0, productive=0, t=0, entered_abs=set(), main=True)

        def tolv(x):
            # relative to the value in question and to the scale of the problem's values: the reference solver's own rounding
            # error at a state worth 0 is ~1e-16 times the largest value it solves for (1e-7 when rewards are of the order 1e9)
            return 1e-9 * (1 + abs(x)) + 1e-15 * vscale

        def stored(V):
            out = {}
            for k, v in dict.items(V):
                out[sid[k]] = float(v)
            return out

        def valof(Vd, s):
            if s in view.absorbing:
                return 0.0
            return Vd.get(s, htab[s])

        def invariants(lv, where):
            try:
                res = lv['self'].res
                Vd = stored(res.V)
                solved = {sid[k] for k, v in dict.items(res.solved) if v}
            except Exception:
                return None, None
            for s, v in Vd.items():
                if s in view.absorbing:
                    continue
                ctx.check(v >= Vs[s] - tolv(Vs[s]), 'upper-bound', lambda: f"{where}: V[{s}]={v!r} fell below the optimal value {Vs[s]!r}")
                if mono:
                    pv = st['prevV'].get(s, htab[s])
                    ctx.check(v <= pv + tolv(pv), 'monotone-decrease', lambda: f"{where}: V[{s}] rose from {pv!r} to {v!r} under a monotone heuristic")
                if s in st['solved_val']:
                    ctx.check(abs(v - st['solved_val'][s]) <= tolv(v), 'solved-stable', lambda: f"{where}: V[{s}] changed from {st['solved_val'][s]!r} to {v!r} after the state was labelled solved")
            for s in solved:
                if s not in st['solved_val'] and s not in view.absorbing:
                    st['solved_val'][s] = valof(Vd, s)
            st['prevV'] = Vd
            return Vd, solved

        class L(lr.LRTDPEventListener):
            def end_of_lrtdp_timestep(self, lv):
                st['raw'] = st.get('raw', 0) + 1
                if st['raw'] > 2 * 10 ** 6:
                    raise Inconclusive('2e6 LRTDP time steps without ending (no scheduler decision or model call-back involved)')
                if not st['main']:
                    return
                ctx.probe('timestep_events')
                ctx.steps += 1
                st['t'] += 1
                Vd, solved = invariants(lv, f"timestep {st['t']}")
                if Vd is None:
                    return
                try:
                    vis = [sid[x] for x in lv['visited']]
                    ns = sid[lv['s']]
                except Exception:
                    return
                # (a trial that starts in a not-yet-labelled absorbing state steps through its self-loop: absorbing states are worth 0
                # under every action, so there is no greedy choice to check there)
                if len(vis) >= 2 and vis[-1] == ns and ctx.last and ctx.last[0] == 'succ' and ctx.last[1] == vis[-2] and vis[-2] not in view.absorbing:
                    prev, a = vis[-2], ctx.last[2]
                    ctx.check(view.T[prev, a].get(ns, 0) > 0, 'trial-step', lambda: f"timestep {st['t']}: sampled successor {ns} has probability 0 under ({prev},{a})")
                    qs = {b: sum(p * (view.R[prev, b, t] + g * valof(Vd, t)) for t, p in view.T[prev, b].items()) for b in view.A[prev]}
                    ctx.check(qs[a] >= max(qs.values()) - 1e-9 * (1 + abs(qs[a])), 'trial-step',
                              lambda: f"timestep {st['t']}: trial followed action {a} at {prev} (Q={qs[a]!r}) which is not greedy ({qs})")
                if ns in view.absorbing:
                    st['entered_abs'].add(ns)

            def end_of_lrtdp_trial(self, lv):
                if not st['main']:
                    return
                ctx.probe('trial_events')
                st['trials'] += 1
                Vd, solved = invariants(lv, f"end of trial {st['trials']}")
                try:
                    vis = [sid[x] for x in lv['visited']]
                except Exception:
                    return
                if len(vis) <= 1:
                    ctx.probe('unproductive_trial')
                else:
                    st['productive'] += 1
                    if mono and eps >= 1e-3:
                        ctx.check(st['productive'] <= trial_bound, 'trial-bound',
                                  lambda: f"{st['productive']} trials started at unsolved states; the Bonet-Geffner bound |S| + sum(h-V*)/eps is {trial_bound:.1f}")

        proxy = RandomProxy(the_sched)
        with patched_random([lr], proxy):
            try:
                positional = (len(view.spec['trans']) + view.n) % 3 == 0      # a third of the planners are built by position
                if positional:
                    ctx.probe('constructed_by_position')
                planner = construct(lr.LRTDP, 'LRTDP', dict(heuristic=lambda s: htab[sid[s]], seed=cfg['seed'], bellman_error_margin=eps, randomize_action_order=cfg['rao'],
                                    iterations=iterations_cap, event_listener_class=L), positional)
                sib = sibling_mdp_spec(view.spec, cfg['reuse']) if (allow_reuse and cfg.get('reuse') is not None) else None
                if sib is not None and cfg['reuse'] % 2 == 1:
                    # fault F6: a first run on the SAME problem and objects is aborted by an exception thrown from a model call-back
                    # (the library analogue of a crash); the real run then uses the same planner and model objects
                    sib = None
                    ctx.probe('rerun_after_abort')
                    st['main'] = False
                    hook = ctx.abort_after(1 + cfg['reuse'] % 60)
                    try:
                        planner.plan_on(mdp)
                    except InjectedAbort:
                        pass
                    ctx.disarm(hook)
                    st['main'] = True
                if sib is not None:
                    # fault F5: the same planner object is first used on a sibling problem (same keys, one more absorbing state)
                    sched.fire('F5_object_reuse')
                    ctx.probe('planner_reused')
                    st['main'] = False
                    sview = MDPView(sib)
                    W0, ctx.W = ctx.W, game_W(sview)
                    _first = planner.plan_on(make_mdp(sview, ctx, alias=cfg.get('alias', 'fresh')))
                    for _s in range(view.N):          # the first result is used before the object is used again
                        try:
                            _first.policy.action_dist(sk[_s])
                        except Exception:
                            pass
                    ctx.W = W0
                    st['main'] = True
                st['log0'] = len(the_sched.log)
                hookN = None
                if allow_reuse and cfg.get('nest') is not None:
                    # fault F10: at the k-th model call-back of the real run, ANOTHER planner object (same class, same seed and
                    # options) plans another problem with the same state and action keys (other absorbing set / discount, probabilities, rewards)
                    nsp = nested_variant_spec(view.spec, cfg['nest'])
                    nv = MDPView(nsp)
                    if all(s_ in nv.absorbing for s_ in range(nv.N)):
                        nv = view            # (a sibling without any decision left: nest the problem itself)
                    nV, _ = optimal_values(nv)
                    nh = build_heuristic(cfg['heur'], nv, nV)
                    nW = game_W(nv)

                    def nested():
                        ctx.probe('nested_run')
                        st['main'] = False
                        try:
                            ctx.W = nW
                            rn = lr.LRTDP(heuristic=lambda s: nh[sid[s]], seed=cfg['seed'], bellman_error_margin=eps, randomize_action_order=cfg['rao'],
                                          iterations=30, event_listener_class=L).plan_on(make_mdp(nv, None))
                            for _s in range(view.N):
                                try:
                                    rn.policy.action_dist(sk[_s])
                                except Exception:
                                    pass
                        finally:
                            st['main'] = True
                    hookN = ctx.nest_after(1 + cfg['nest'] % 40, nested)
                r = planner.plan_on(mdp)
                if hookN is not None:
                    ctx.disarm(hookN)
            except (Violation, Inconclusive):
                raise
            except Exception as e:
                raise Violation('exception', f"{tag}LRTDP.plan_on raised {type(e).__name__}: {e}", dict(key=f"exception/{type(e).__name__}"))
        try:
            Vd = stored(r.V)
            solved = {sid[k] for k, v in dict.items(r.solved) if v}
            Qd = {sid[s]: {aid[a]: float(v) for a, v in av.items()} for s, av in r.Q.items()}
        except (KeyError, TypeError, AttributeError) as e:
            raise Violation('result-shape', f"result malformed: {type(e).__name__}: {e}")
        for s in view.init:
            ctx.check(s in solved, 'all-initial-solved', lambda: f"{tag}initial state {s} is not labelled solved at termination")
        for s, v in Vd.items():
            if s in view.absorbing:
                ctx.check(v == 0.0, 'absorbing-zero', lambda: f"reported V[{s}]={v!r} for an absorbing state (heuristic says {htab[s]!r})", key='absorbing-zero/V')
            else:
                ctx.check(v >= Vs[s] - tolv(Vs[s]), 'upper-bound', lambda: f"final V[{s}]={v!r} below optimal {Vs[s]!r}")
        for s, av in Qd.items():
            if s in view.absorbing:
                ctx.check(all(v == 0.0 for v in av.values()), 'absorbing-zero', lambda: f"reported Q[{s}]={av} for an absorbing state", key='absorbing-zero/Q')
        # initial value: absorbing initial mass counts as 0
        iv = float(r.initial_value)
        exp_iv = sum(p * (0.0 if s in view.absorbing else Vd.get(s, htab[s])) for s, p in view.init.items())
        if abs_init and any(s in st['entered_abs'] for s in abs_init):
            ctx.probe('absorbing_initial_labelled_by_entry')
        ctx.check(abs(iv - exp_iv) <= 1e-9 * (1 + abs(exp_iv)), 'initial-value',
                  lambda: f"initial_value {iv!r} != sum of p*V over the initial distribution with absorbing states worth 0 ({exp_iv!r}); "
                  f"absorbing initial states {abs_init}, heuristic there {[htab[s] for s in abs_init]}",
                  key='initial-value' + ('/absorbing-initial-state' if abs_init else ''))
        # returned greedy policy
        pol = {}
        for s in nonabs:
            try:
                d = {aid[a]: float(p) for a, p in r.policy.action_dist(sk[s]).items() if p > 0}
            except Exception as e:
                raise Violation('policy', f"policy undefined at {s}: {type(e).__name__}: {e}")
            ctx.check(d and all(a in view.A[s] for a in d) and abs(sum(d.values()) - 1) < 1e-9, 'policy', lambda: f"policy at {s} is {d}, available {view.A[s]}")
            pol[s] = d
        Vp, Np = evaluate(view, pol)
        for s in view.init:
            if s in view.absorbing:
                continue
            gap = Vd.get(s, htab[s]) - Vs[s]
            ctx.check(gap >= -tolv(Vs[s]), 'upper-bound', lambda: f"V[{s}] - V*[{s}] = {gap!r} < 0 at an initial state")
            ctx.clauses += 0
            if True:      # every admissible heuristic (the returned policy is the one verified at labelling)
                ctx.check(gap <= eps * float(Np[s]) + tolv(Vs[s]) + 1e-9, 'eps-bound-value',
                          lambda: f"{tag}V[{s}] - V*[{s}] = {gap!r} exceeds eps*N = {eps}*{float(Np[s])!r}")
        if True:
            vp0 = sum(p * float(Vp[s]) for s, p in view.init.items())
            n0 = sum(p * float(Np[s]) for s, p in view.init.items())
            ctx.check(vp0 >= v0 - eps * n0 - 1e-9 * (1 + abs(v0)), 'eps-bound-policy',
                      lambda: f"{tag}exact return of the returned policy {vp0!r} is more than eps*N = {eps * n0!r} below the optimum {v0!r}")
        return st

    if rview is not None:
        import msdm.algorithms.lrtdp as _lr
        sched.fire('F9_model_updated_in_place')
        ctx.probe('model_updated_in_place')
        W0, ctx.W = ctx.W, game_W(rview)
        with patched_random([_lr], RandomProxy(sched)):
            try:
                _lr.LRTDP(heuristic=lambda s: 1e6, seed=cfg['seed'], bellman_error_margin=0.5, randomize_action_order=cfg['rao'], iterations=50).plan_on(mdp)
            except (Violation, Inconclusive):
                raise
            except Exception:
                pass
        ctx.W = W0
        update_model_in_place(mdp, view)
    st1 = one_run(sched, 10 ** 7, '', True)
    # fault F7: the trial cap placed exactly at the number of trials this schedule needs; the planner runs out of trials
    # just as the last initial state is labelled, and everything it reports must still satisfy the property
    T = st1['trials']
    if cfg.get('cap_exact') and T >= 1:
        from sim.core import Scheduler
        seg = [(e[0], e[1]) for e in sched.log[st1.get('log0', 0):]]
        sub = Scheduler('replay', script=seg, cap=10 ** 6)
        sub.advisor = ctx.advisor
        sched.fire('F7_step_limit')
        ctx.probe('trial_cap_exact')
        one_run(sub, T, f"with iterations={T}, exactly the {T} trials this schedule needs: ", False)
    return ctx.result()


def sample_repr(case, out):
    c = case['cfg']
    return dict(index=case['index'], states=case['spec']['n'], keys=case['spec']['kind'], discount=case['spec']['gamma'],
                heuristic=c['heur']['kind'], eps=c['eps'], rao=c['rao'], mode=case['sched']['mode'], budget=case['sched']['budget'],
                decisions=(out.get('stats') or {}).get('decisions'), steps=(out.get('stats') or {}).get('steps'),
                first_decisions=(out.get('script') or [])[:8], status=out.get('status'))


def shrink(case):
    yield from shr.config_candidates(case, {('cfg', 'rao'): [False], ('cfg', 'eps'): [1e-2, 1e-3],
                                            ('cfg', 'heur', 'kind'): ['exact', 'const', 'slack']})
    yield from shr.mdp_candidates(case, need_proper=True)

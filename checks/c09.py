"""C09 - finite-state-controller values equal the return of executing the controller."""
import copy
import numpy as np

from sim.core import Violation, Inconclusive, InjectedAbort, SimRandom
from sim.models import interrupted_first_sweep, nested_pomdp_variant, gen_pomdp_spec, POMDPView, make_pomdp, dyadic
from sim.refsolve import fsc_value, pomdp_arrays
from sim.ctx import RunCtx, make_scheduler, gen_sched
from sim import shrink as shr

PROP = 'C09'
QUICK_RUNS = 14000
THOROUGH_RUNS = 300000
QUICK_WALL = 110
THOROUGH_WALL = 1500
CHUNK = 20
RULE = ("one run = one generated POMDP x either (a) a random stochastic controller executed several times with the scheduler choosing "
        "every action, successor and observation (rare-biased towards low-probability actions), every step's action distribution "
        "compared with the reference node filter, plus the exact evaluator compared with the reference node x state chain; or (b) a "
        "seed-driven learner run (bounded policy iteration with its per-iteration value tables recorded through the module-level "
        "evaluator seam, or gradient ascent); distinct = distinct digest of (decision log, learner result); non-trivial = >=1 "
        "oracle clause and (>=1 decision or a learner run)")
REAL = ["msdm.core.pomdp.finitestatecontroller.StochasticFiniteStateController", "msdm.core.pomdp.policy.POMDPPolicy.run_on",
        "msdm.algorithms.fscgradientascent (evaluator and learner)", "msdm.algorithms.fscboundedpolicyiteration (LPs via scipy/highs, escape step)",
        "TabularPOMDP matrices"]
STUB = ["table POMDP behind msdm's model interface", "generator argument of run_on (SimRandom)", "reference node filter and node x state chain (numpy)",
        "numpy / torch generators of the learners are real and seed-driven (not behind a seam)"]
ASSUMPTIONS = ["POMDPs with 2-4 states, controllers with 1-3 nodes", "BPI non-decrease uses the implementation's own closeness tolerance (np.isclose)"]

KEY_D8 = 'evaluator/value-vs-chain/absorbing-state-keeps-accumulating'


def preload():
    import msdm.algorithms.fscboundedpolicyiteration  # noqa
    import msdm.algorithms.fscgradientascent  # noqa
    import msdm.core.pomdp.finitestatecontroller  # noqa


def _dy0(rng, k, allow_zero=True):
    m = rng.randint(1, k) if allow_zero else k
    idx = sorted(rng.sample(range(k), m))
    out = [0] * k
    for i, p in zip(idx, dyadic(rng, m) if m <= 7 else [1] * k):
        out[i] = p
    return out


def gen_case(rng, tier, idx):
    spec = gen_pomdp_spec(rng)
    nS, nA, nO = spec['nS'], spec['nA'], spec['nO']
    u = rng.random()
    if u < 0.84:
        nN = rng.randint(1, 3)
        # non-degenerate initial node distribution when there is more than one node
        ini = _dy0(rng, nN, allow_zero=False) if rng.random() < 0.8 else _dy0(rng, nN)
        cfg = dict(what='exec', As=[_dy0(rng, nA) for _ in range(nN)],
                   Ns=[[[_dy0(rng, nN) for _ in range(nO)] for _ in range(nA)] for _ in range(nN)], ini=ini,
                   rollouts=rng.randint(1, 4), cap=rng.choice((2, 4, 8)) if rng.random() < 0.985 else 900, start=rng.choice([None] + list(range(nS))))
    elif u < 0.96:
        cfg = dict(what='bpi', nodes=rng.randint(1, 3), iterations=rng.randint(2, 10), seed=rng.choice((0, 1, 2, 3, 17, 12345)))
    else:
        cfg = dict(what='ga', nodes=rng.randint(1, 2), iterations=rng.randint(1, 10), seed=rng.choice((0, 1, 5, 99)))
    plain = idx % 4 == 0
    if cfg['what'] != 'exec' and not plain and rng.random() < 0.25:
        cfg['abort'] = rng.randrange(1000)
    if cfg['what'] == 'exec' and not plain:
        v = rng.random()
        if v < 0.1:
            cfg['nest'] = rng.randrange(1000)
        elif v < 0.18:
            cfg['abort'] = rng.randrange(1000)
    sched = gen_sched(rng, ('P',) if plain else ('P', 'U', 'R', 'R'), budget_choices=(None,), coop=False)
    return dict(spec=spec, cfg=cfg, sched=sched)


def execute(case, script=None):
    import random as _r
    import torch
    _r.seed(f"global:{case.get('verif_seed')}:{case.get('index')}")
    np.random.seed(_r.getrandbits(32))
    torch.manual_seed(_r.getrandbits(32))
    pv = POMDPView(case['spec'])
    ctx = RunCtx(PROP, None)
    ctx.declare_probes('exec_histories', 'multi_node_stochastic', 'evaluator_checked', 'absorbing_with_reward', 'bpi_runs', 'bpi_tables',
                       'bpi_node_added', 'bpi_candidate_lowered_value', 'nested_run', 'rerun_after_abort', 'aborts_delivered', 'first_sweep_interrupted', 'start_node_distribution_given', 'ga_runs', 'low_probability_action_taken', 'execution_longer_than_700_steps')
    sched = make_scheduler(case, script, ctx)
    try:
        cfg = case['cfg']
        if cfg['what'] == 'exec':
            return _exec(pv, cfg, ctx, sched)
        return _learner(pv, cfg, ctx, sched)
    except (Violation, Inconclusive) as e:
        raise ctx.attach_partial(e)


def _has_paying_absorbing(pv):
    # every state of the (explicit) state list is a legitimate (node, state) pair, reachable or not
    return any(any(pv.R[s, a, s] != 0 for a in range(pv.nA)) for s in pv.absorbing)


def _check_evaluator(ctx, pv, pomdp, As, Ns, ini, tag):
    """exact evaluation == reference chain where an episode ends on entering an absorbing state"""
    import torch
    from msdm.algorithms.fscgradientascent import stochastic_fsc_policy_evaluation_exact as ev
    try:
        r1 = ev(pomdp, torch.tensor(As), torch.tensor(Ns))
        r2 = ev(pomdp, torch.tensor(As), torch.tensor(Ns), fsc_initial_state=torch.tensor(ini))
        V1 = r1.state_controller_value.detach().numpy()
        V2 = r2.state_controller_value.detach().numpy()
        sv = r2.state_value.detach().numpy()
        evv = float(r2.expected_value)
    except (Violation, Inconclusive):
        raise
    except Exception as e:
        raise Violation('exception', f"{tag}: exact evaluation raised {type(e).__name__}: {e}")
    # second input form of the same evaluator: node transitions that do not depend on the action, given as p(n'|n,o)
    try:
        N3 = np.ascontiguousarray(Ns[:, 0])
        N4 = np.repeat(N3[:, None, :, :], Ns.shape[1], axis=1)
        v3 = ev(pomdp, torch.tensor(As), torch.tensor(N3)).state_controller_value.detach().numpy()
        v4 = ev(pomdp, torch.tensor(As), torch.tensor(N4)).state_controller_value.detach().numpy()
    except (Violation, Inconclusive):
        raise
    except Exception as e:
        raise Violation('exception', f"{tag}: exact evaluation of an action-independent node strategy raised {type(e).__name__}: {e}")
    ctx.check(np.allclose(v3, v4, rtol=1e-7, atol=1e-8), 'evaluator-consistent',
              lambda: f"{tag}: the evaluation of p(n'|n,o) given in its 3-dimensional form {v3.tolist()} differs from the same strategy repeated over the actions {v4.tolist()}",
              key='evaluator-consistent/3d-form')
    oo = [pv.oid[o] for o in pomdp.observation_list]
    ref_end = fsc_value(pv, As, Ns, end_on_absorbing=True, obs_order=oo)
    ref_cont = fsc_value(pv, As, Ns, end_on_absorbing=False, obs_order=oo)
    s0 = np.array([pv.init.get(s, 0.0) for s in range(pv.nS)])
    ctx.probe('evaluator_checked')

    def same(a, b):
        return np.allclose(a, b, rtol=1e-7, atol=1e-8)
    ctx.check(same(V1, V2), 'evaluator-consistent', f"{tag}: evaluation with and without an initial node distribution disagree")
    ctx.check(same(sv, ini @ V2) and abs(evv - float(ini @ V2 @ s0)) <= 1e-7 * (1 + abs(evv)), 'evaluator-consistent',
              f"{tag}: state_value / expected_value are not the initial-distribution averages of the value table")
    if same(V1, ref_end):
        ctx.clauses += 1
        return 'end'
    if same(V1, ref_cont) and _has_paying_absorbing(pv):
        ctx.known_or_violate('evaluator-value', KEY_D8,
                             f"{tag}: exact evaluation keeps collecting reward after an absorbing state is entered: "
                             f"V={V1.tolist()} vs return of executing the controller {ref_end.tolist()}")
        return 'cont'
    raise Violation('evaluator-value', f"{tag}: exact evaluation {V1.tolist()} is neither the return of executing the controller "
                    f"(episode ends on entering an absorbing state) {ref_end.tolist()} nor the keep-running value {ref_cont.tolist()}",
                    dict(key='evaluator/value-vs-chain/other'))


def _exec(pv, cfg, ctx, sched):
    from msdm.core.pomdp.finitestatecontroller import StochasticFiniteStateController
    pomdp = make_pomdp(pv, ctx)
    sk, ak, ok, sid, aid, oid = pv.sk, pv.ak, pv.ok, pv.sid, pv.aid, pv.oid
    As = np.array(cfg['As'], dtype=float) / 8
    Ns = np.array(cfg['Ns'], dtype=float) / 8
    ini = np.array(cfg['ini'], dtype=float) / 8
    nN = As.shape[0]
    if nN > 1 and (As.max(axis=1) < 1).any():
        ctx.probe('multi_node_stochastic')
    if _has_paying_absorbing(pv):
        ctx.probe('absorbing_with_reward')
    if cfg.get('abort') is not None and interrupted_first_sweep(pomdp, ctx, 1 + (cfg['abort'] // 11) % 17):
        ctx.probe('first_sweep_interrupted')
    _check_evaluator(ctx, pv, pomdp, As, Ns, ini, 'random controller')
    pol = StochasticFiniteStateController(pomdp, As, Ns, ini)
    rng = SimRandom(sched)
    start = cfg['start']
    if cfg.get('abort') is not None:
        # fault F6: an execution of the SAME controller on the same model object dies at a model call-back
        ctx.probe('rerun_after_abort')
        hook = ctx.abort_after(1 + cfg['abort'] % 11)
        try:
            pol.run_on(pomdp, initial_state=None if start is None else sk[start], max_steps=8, rng=SimRandom(sched))
        except InjectedAbort:
            ctx.probe('aborts_delivered')
        ctx.disarm(hook)
    hookN = None
    if cfg.get('nest') is not None:
        # fault F10: at the k-th model call-back of the first execution, user code executes ANOTHER controller (other
        # strategies, its own initial node distribution) on another POMDP with the same keys
        nv = POMDPView(nested_pomdp_variant(pv.spec, cfg['nest']))
        npomdp = make_pomdp(nv, None)
        nAs, nNs = np.roll(As, 1, axis=1), np.roll(Ns, 1, axis=3)
        nini = np.roll(ini, 1)

        def nested():
            ctx.probe('nested_run')
            other = StochasticFiniteStateController(npomdp, nAs, nNs, nini)
            other.run_on(npomdp, max_steps=4, rng=SimRandom(sched))
        hookN = ctx.nest_after(1 + cfg['nest'] % 9, nested)
    for k in range(cfg['rollouts']):
        tag = f"execution {k}"
        # call form: every third execution is started in a node distribution of the caller's choosing ("running that
        # controller from each (node, state) pair") - with or without a start state given
        ini0 = ini
        kw = {}
        if (k + nN + pv.nS) % 3 == 0 and nN > 1:
            ini0 = np.roll(ini, 1) if k % 2 else np.eye(nN)[(k + pv.nA) % nN]
            kw['initial_agentstate'] = np.array(ini0, dtype=float)
            ctx.probe('start_node_distribution_given')
        try:
            tr = pol.run_on(pomdp, initial_state=None if start is None else sk[start], max_steps=cfg['cap'], rng=rng, **kw)
        except (Violation, Inconclusive):
            raise
        except Exception as e:
            raise Violation('exception', f"{tag}: run_on raised {type(e).__name__}: {e}")
        ctx.probe('exec_histories')
        if len(tr) > 700:
            ctx.probe('execution_longer_than_700_steps')
        # "running that controller from each (node, state) pair": the execution starts where it was told to
        try:
            first = sid[tr[0].state]
        except (KeyError, TypeError, AttributeError, IndexError) as e:
            raise Violation('result-shape', f"{tag}: malformed trajectory: {type(e).__name__}: {e}")
        if start is not None:
            ctx.check(first == start, 'execution-start', lambda: f"{tag}: started in state {first}, was asked to start in {start}")
        else:
            ctx.check(pv.init.get(first, 0) > 0, 'execution-start', lambda: f"{tag}: sampled start {first} has probability 0")
        ctx.check(np.allclose(np.asarray(tr[0].agentstate, dtype=float), ini0, atol=1e-12), 'execution-start',
                  lambda: f"{tag}: first agent state {tr[0].agentstate} is not the node distribution the execution was started in {np.asarray(ini0).tolist()}"
                  f" ({'given by the caller' if kw else 'the controller`s own'})")
        beta = np.array(ini0, dtype=float)
        for t, st in enumerate(tr[:-1]):
            ctx.steps += 1
            try:
                s, a, ns, o = sid[st.state], aid[st.action], sid[st.nextstate], oid[st.observation]
                impl = pol.action_dist(st.agentstate)
                impl = np.array([float(impl.prob(ak[x])) for x in range(pv.nA)])
            except (KeyError, TypeError, AttributeError) as e:
                raise Violation('result-shape', f"{tag}: malformed step {t}: {type(e).__name__}: {e}")
            ref = beta @ As
            ctx.check(np.allclose(ref, impl, atol=1e-9), 'history-probability',
                      lambda: f"{tag}, step {t}: after history {('... ' if t > 8 else '') + str([(aid[x.action], oid[x.observation]) for x in tr[max(0, t - 8):t]])} the executed controller "
                      f"chooses actions with probabilities {impl.tolist()}, the controller defines {ref.tolist()}",
                      key='history-probability' + ('/multi-node' if nN > 1 else ''))
            ctx.check(s not in pv.absorbing and pv.T[s, a].get(ns, 0) > 0 and pv.Ob[a, ns].get(o, 0) > 0 and st.reward == pv.R[s, a, ns]
                      and sid[tr[t + 1].state] == ns, 'execution-step', lambda: f"{tag}, step {t}: not a real transition of the POMDP")
            if ref[a] <= 0.125:
                ctx.probe('low_probability_action_taken')
            w = beta * As[:, a]
            beta = (w / w.sum()) @ Ns[:, a, pomdp.observation_index[st.observation]]
            # the two halves of a step are separate public methods: asking for the action distribution of ANOTHER agent state
            # (a planner walking the history tree, a second episode on the same controller) must not change the next step
            try:
                pol.action_dist(tr[(t + 2) % len(tr)].agentstate)
                nag = np.asarray(pol.next_agentstate(st.agentstate, st.action, st.observation), dtype=float)
            except (Violation, Inconclusive):
                raise
            except Exception as e:
                raise Violation('exception', f"{tag}, step {t}: next_agentstate raised {type(e).__name__}: {e}")
            ctx.check(np.allclose(nag, beta, atol=1e-9), 'history-probability',
                      lambda: f"{tag}, step {t}: next_agentstate(agent state, action {a}, observation {o}) after an action_dist query for another agent state gives {nag.tolist()}, the controller defines {beta.tolist()}",
                      key='history-probability/next-agentstate-after-unrelated-query')
    return ctx.result()


def _learner(pv, cfg, ctx, sched):
    import torch
    pomdp = make_pomdp(pv, ctx)
    if cfg.get('abort') is not None and interrupted_first_sweep(pomdp, ctx, 1 + cfg['abort'] % 17):
        ctx.probe('first_sweep_interrupted')
    s0 = np.array([pv.init.get(s, 0.0) for s in range(pv.nS)])
    if _has_paying_absorbing(pv):
        ctx.probe('absorbing_with_reward')
    tables = []
    ctrls = []
    if cfg['what'] == 'bpi':
        import msdm.algorithms.fscboundedpolicyiteration as bpi
        ctx.probe('bpi_runs')
        orig = bpi.stochastic_fsc_policy_evaluation_exact

        def recording(*a, **k):
            r = orig(*a, **k)
            try:
                tables.append(np.array(r.state_controller_value.detach().numpy(), dtype=float))
                ctrls.append((np.array(a[1].detach().numpy(), dtype=float), np.array(a[2].detach().numpy(), dtype=float)))
            except Exception:
                pass
            return r
        bpi.stochastic_fsc_policy_evaluation_exact = recording
        try:
            res = bpi.FSCBoundedPolicyIteration(controller_state_count=cfg['nodes'], iterations=cfg['iterations'], seed=cfg['seed']).train_on(pomdp)
        except (Violation, Inconclusive):
            raise
        except Exception as e:
            raise Violation('exception', f"FSCBoundedPolicyIteration.train_on raised {type(e).__name__}: {e}", dict(key=f"exception/bpi/{type(e).__name__}"))
        finally:
            bpi.stochastic_fsc_policy_evaluation_exact = orig
        reported = float(res.value)
    else:
        import msdm.algorithms.fscgradientascent as ga
        ctx.probe('ga_runs')
        try:
            res = ga.FSCGradientAscent(controller_state_count=cfg['nodes'], iterations=cfg['iterations'], seed=cfg['seed']).train_on(pomdp)
        except (Violation, Inconclusive):
            raise
        except Exception as e:
            raise Violation('exception', f"FSCGradientAscent.train_on raised {type(e).__name__}: {e}", dict(key=f"exception/ga/{type(e).__name__}"))
        reported = float(res.value.expected_value)

    def arr(x):
        return np.array(x.detach().numpy() if hasattr(x, 'detach') else x, dtype=float)
    try:
        As, Ns, ini = arr(res.policy.action_strategy), arr(res.policy.observation_strategy), arr(res.policy.initial_state_dist)
    except Exception as e:
        raise Violation('result-shape', f"returned controller malformed: {type(e).__name__}: {e}")
    nN = As.shape[0]
    ctx.check(As.shape == (nN, pv.nA) and Ns.shape == (nN, pv.nA, pv.nO, nN) and ini.shape == (nN,), 'valid-controller',
              lambda: f"controller shapes {As.shape} {Ns.shape} {ini.shape}")
    for name, M in (('action', As), ('node-transition', Ns), ('initial-node', ini)):
        # tolerance: the primal feasibility tolerance of the LP solver behind bounded policy iteration (HiGHS, 1e-7);
        # an entry of -8e-9 is solver noise, an entry of -1e-3 is not a probability
        ctx.check(np.isfinite(M).all() and (M >= -1e-7).all() and np.allclose(M.sum(-1), 1, atol=1e-6), 'valid-controller',
                  lambda: f"{name} strategy is not row-stochastic: min {M.min()!r}, row sums {M.sum(-1).tolist()}")
    As_, Ns_, ini_ = np.clip(As, 0, None), np.clip(Ns, 0, None), np.clip(ini, 0, None)
    which = _check_evaluator(ctx, pv, pomdp, As_, Ns_, ini_, 'returned controller')
    ref = fsc_value(pv, As_, Ns_, end_on_absorbing=(which == 'end'), obs_order=[pv.oid[o] for o in pomdp.observation_list])
    refv = float(ini_ @ ref @ s0)
    ctx.check(abs(reported - refv) <= 1e-6 * (1 + abs(refv)), 'reported-value',
              lambda: f"{cfg['what']}: reported value {reported!r} is not the exact evaluation of the returned controller at the initial distribution {refv!r}")
    if cfg['what'] == 'bpi':
        ctx.probe('bpi_tables', len(tables))
        _bpi_monotone(ctx, tables, ctrls, As, Ns, arr(res.state_controller_value))
    from sim.ctx import digest_of
    out = ctx.result()
    out['digest'] = digest_of([out['digest'], cfg, round(reported, 9), As.round(9).tolist()])
    out['nontrivial'] = ctx.clauses > 0
    return out



def _same(c1, c2):
    return c1[0].shape == c2[0].shape and np.array_equal(c1[0], c2[0]) and np.array_equal(c1[1], c2[1])


def _changed_nodes(base, cand):
    return [n for n in range(base[0].shape[0]) if not (np.array_equal(base[0][n], cand[0][n]) and np.array_equal(base[1][n], cand[1][n]))]


def _bpi_monotone(ctx, tables, ctrls, As, Ns, final_table):
    """Every controller bounded policy iteration evaluates is the controller it currently holds, that controller with one
    node re-solved (a candidate) or with one node added.  A candidate whose exact evaluation lowers some value is not an
    iteration's result as long as the library discards it (it may legitimately be proposed and discarded again in the next
    iteration, when nothing else has changed); what the library HOLDS must never go down.  The harness follows which
    controllers are held: `bases` are the controllers the library may legitimately hold at this point, `rejected` the
    candidates since the last accepted change whose evaluation lowered a value.  Holding a rejected candidate shows as soon
    as a node is added to it, another node is re-solved on top of it, or it is returned."""
    if len(tables) != len(ctrls) or not tables:
        ctx.check(len(tables) == len(ctrls), 'bpi-monotone', "evaluator seam: controller arguments could not be recorded")
        return

    def lowered(r):
        return f"{r[1].tolist()} -> {r[2].tolist()}"
    bases = [(ctrls[0], tables[0])]
    rejected = []          # (controller, table of the base it was derived from, its own table)
    for i in range(1, len(tables)):
        c, t = ctrls[i], tables[i]
        n_prev = bases[0][0][0].shape[0]
        ctx.check(t.shape[1] == bases[0][1].shape[1] and c[0].shape[0] in (n_prev, n_prev + 1), 'bpi-monotone',
                  lambda: f"evaluation {i}: value table has shape {t.shape} after {bases[0][1].shape}")
        if c[0].shape[0] == n_prev + 1:
            ctx.probe('bpi_node_added')
            pre = (c[0][:n_prev], c[1][:n_prev, :, :, :n_prev])
            m = [b for b in bases if _same(pre, b[0])]
            if not m:
                kept = [r for r in rejected if _same(pre, r[0])]
                raise Violation('bpi-monotone', f"evaluation {i}: bounded policy iteration lowered a node's value and kept the controller (a node was then added to it): {lowered(kept[0])}"
                                if kept else f"evaluation {i}: a node was added to a controller that is not the one held")
            bt = m[0][1]
            bb = t[:n_prev]
            ctx.check((np.isclose(bb, bt) | (bb > bt)).all(), 'bpi-monotone',
                      lambda: f"adding a node lowered an existing node's value (evaluation {i}): {bt.tolist()} -> {bb.tolist()}")
            bases, rejected = [(c, t)], []
            continue
        same = [b for b in bases if _same(c, b[0])]
        if same:
            ctx.check(np.allclose(t, same[0][1], atol=1e-9), 'bpi-monotone', lambda: f"evaluation {i}: the same controller evaluated twice gave {same[0][1].tolist()} then {t.tolist()}")
            continue
        if any(_same(c, r[0]) for r in rejected):
            continue            # proposed again and, one hopes, discarded again: decided by what follows
        m = [b for b in bases if len(_changed_nodes(b[0], c)) == 1]
        if not m:
            kept = [r for r in rejected if len(_changed_nodes(r[0], c)) <= 1]
            raise Violation('bpi-monotone', f"evaluation {i}: bounded policy iteration lowered a node's value and kept the controller (another node was then re-solved on top of it): {lowered(kept[0])}"
                            if kept else f"evaluation {i}: the controller evaluated differs from the controller held in {[len(_changed_nodes(b[0], c)) for b in bases]} nodes")
        bt = m[0][1]
        ok = (np.isclose(t, bt) | (t > bt)).all()
        if not ok:
            ctx.probe('bpi_candidate_lowered_value')
            rejected.append((c, bt, t))          # legitimate only if the library discards it
        elif (t > bt).any():
            bases, rejected = [(c, t)], []
        else:
            bases = [m[0], (c, t)]         # no strict improvement anywhere: keeping or discarding it are both legitimate

    def is_returned(c):
        return c[0].shape == As.shape and np.allclose(c[0], As, atol=1e-12) and np.allclose(c[1], Ns, atol=1e-12)
    held = [b for b in bases if is_returned(b[0])]
    if not held:
        kept = [r for r in rejected if is_returned(r[0])]
        raise Violation('bpi-monotone', f"bounded policy iteration returned a controller whose evaluation had lowered a node's value: {lowered(kept[0])}"
                        if kept else "the returned controller is not the controller held after the last evaluation")
    ctx.check(np.allclose(held[0][1], final_table, atol=1e-9), 'reported-value', "state_controller_value is not the evaluation of the returned controller")


def sample_repr(case, out):
    c = case['cfg']
    d = dict(index=case['index'], what=c['what'], states=case['spec']['nS'], actions=case['spec']['nA'], observations=case['spec']['nO'],
             absorbing=case['spec']['absorbing'], keys=case['spec']['kind'], discount=case['spec']['gamma'], mode=case['sched']['mode'],
             decisions=(out.get('stats') or {}).get('decisions'), steps=(out.get('stats') or {}).get('steps'), status=out.get('status'))
    if c['what'] == 'exec':
        d.update(nodes=len(c['As']), rollouts=c['rollouts'], cap=c['cap'], first_decisions=(out.get('script') or [])[:10])
    else:
        d.update(nodes=c['nodes'], iterations=c['iterations'], seed=c['seed'])
    return d


def shrink(case):
    c = case['cfg']
    if c['what'] == 'exec':
        yield from shr.config_candidates(case, {('cfg', 'rollouts'): [1, 2], ('cfg', 'cap'): [2, 4]})
    else:
        yield from shr.config_candidates(case, {('cfg', 'iterations'): [1, 2, 3, 5], ('cfg', 'nodes'): [1, 2]})
    if case['spec']['kind'] != 'int':
        cc = copy.deepcopy(case)
        cc['spec']['kind'] = 'int'
        yield cc
    # rewards towards {0, +-1}
    cc = copy.deepcopy(case)
    ch = False
    for x in cc['spec']['trans']:
        for o in x[2]:
            r = float(max(-1, min(1, round(o[2]))))
            if r != o[2]:
                o[2] = r
                ch = True
    if ch:
        yield cc

"""C05 - A* and breadth-first search return valid minimum-cost / minimum-step paths."""
from sim.core import InjectedAbort, Violation, Inconclusive, RandomProxy, patched_random
from sim.models import nested_graph_variant, gen_graph_spec, GraphView, make_graph_mdp
from sim.refsolve import dijkstra, cost_to_go
from sim.ctx import RunCtx, make_scheduler, gen_sched
from sim import shrink as shr
import copy

PROP = 'C05'
QUICK_RUNS = 200000
THOROUGH_RUNS = 2000000
QUICK_WALL = 100
THOROUGH_WALL = 1500
CHUNK = 200
RULE = ("one run = one generated deterministic graph (zero-cost edges, self-loops, 0-2 goals, unreachable goals) x "
        "representation x heuristic x tie-breaking x action shuffling, A* and BFS both executed, the scheduler deciding every "
        "tie-break float and action permutation; distinct = distinct decision-log digest; non-trivial = >=1 scheduler "
        "decision (random tie-breaking or shuffled actions) and >=1 oracle clause")
REAL = ["msdm.algorithms.search (AStarSearch, BreadthFirstSearch, unmodified)", "msdm.core.mdp.deterministic_shortest_path.from_mdp",
        "QuickTabularMDP and the four single-outcome distribution representations"]
STUB = ["graph spec behind msdm's model interface", "random.Random streams (SimRandom)", "Dijkstra / BFS / cost-to-go reference"]
ASSUMPTIONS = ["graphs of 1-8 states with integer costs 0..3 (returned as ints by half of the models; 3% with 2**53 added to the edges out of the source), (20% of runs) 15-60 states, 4-6 actions, costs 0..9, and (0.3% of runs) corridors of 1050-1400 states", "tie-break floats are pairwise distinct (a real generator repeats one with probability ~2^-53)"]

REPS = ('next_state', 'det', 'dict', 'uniform', 'dsp', 'dict_ulp', 'parallel')
HEUR = ('zero', 'exact', 'half', 'exact_inf')


def preload():
    import msdm.algorithms.search  # noqa


def plain_idx(idx):
    return idx % 4 == 0


def gen_case(rng, tier, idx):
    u = rng.random()
    spec = gen_graph_spec(rng, big=u < 0.2, corridor=u > 0.997)
    tb = rng.choice(('lifo', 'fifo', 'random', 'random'))
    rao = rng.random() < 0.6
    cfg = dict(rep=rng.choice(REPS), heur=rng.choice(HEUR), tie=tb, rao=rao, seed=rng.choice((0, 1, 42, None)))
    if rng.random() < 0.1 and not plain_idx(idx):
        cfg['nest'] = rng.randrange(1000)
    elif rng.random() < 0.08 and not plain_idx(idx):
        cfg['abort'] = rng.randrange(1000)
    if spec.get('listact'):
        cfg['rep'] = 'dsp'
    if spec.get('giant'):
        cfg['heur'] = 'zero'        # integer costs beyond 2**53: only integer arithmetic is exact, so no float-valued heuristic
    plain = idx % 4 == 0
    sched = gen_sched(rng, ('P',) if plain else ('U', 'X', 'X'), float_styles=('uniform', 'increasing', 'decreasing'),
                      budget_choices=(None,), coop=False)
    return dict(spec=spec, cfg=cfg, sched=sched)


def execute(case, script=None):
    import msdm.algorithms.search as se
    gv = GraphView(case['spec'])
    ctx = RunCtx(PROP, None)
    ctx.declare_probes('no_plan', 'start_is_goal', 'zero_cost_edge_on_path', 'two_goals_reachable', 'infinite_heuristic_seen',
                       'self_loop_present', 'random_tie_break', 'shuffled_actions', 'big_graph', 'path_longer_than_1000_steps', 'integer_rewards', 'unhashable_actions', 'goals_without_actions', 'costs_beyond_2_53', 'nested_run', 'rerun_after_abort', 'aborts_delivered')
    sched = make_scheduler(case, script, ctx)
    try:
        return _execute(se, gv, case['cfg'], ctx, sched)
    except (Violation, Inconclusive) as e:
        raise ctx.attach_partial(e)


def _execute(se, gv, cfg, ctx, sched):
    m = make_graph_mdp(gv, cfg['rep'])
    sk, ak, sid, aid, E = gv.sk, gv.ak, gv.sid, gv.aid, gv.E
    h = cost_to_go(gv)
    big = float(sum(w for (t, w) in E.values()) + 1)
    INF = float('inf')
    hk = cfg['heur']
    if hk == 'zero':
        hv = lambda s: 0
    elif hk == 'exact':
        hv = lambda s: -(h[sid[s]] if h[sid[s]] < INF else big)
    elif hk == 'half':
        hv = lambda s: -0.5 * (h[sid[s]] if h[sid[s]] < INF else big)
    else:
        def hv(s):
            if h[sid[s]] == INF:
                ctx.probe('infinite_heuristic_seen')
            return -h[sid[s]]
    if cfg.get('nest') is not None:
        # fault F10: the k-th call of the user's heuristic runs ANOTHER search (A* or BFS, its own planner object) on another
        # graph with the same state and action keys - a heuristic computed by searching a relaxed problem does this
        ngv = GraphView(nested_graph_variant(gv.spec, cfg['nest']))
        nmdp = make_graph_mdp(ngv, REPS[cfg['nest'] % len(REPS)])
        box = dict(n=0, k=1 + cfg['nest'] % 12, busy=False)
        inner_hv = hv

        def hv(s):
            box['n'] += 1
            if box['n'] == box['k'] and not box['busy']:
                box['busy'] = True
                sched.fire('F10_nested_run')
                ctx.probe('nested_run')
                try:
                    with patched_random([se], RandomProxy(sched)):
                        if cfg['nest'] % 2:
                            se.BreadthFirstSearch(seed=cfg['nest'], randomize_action_order=True).plan_on(nmdp)
                        else:
                            se.AStarSearch(heuristic_value=lambda s_: 0, seed=cfg['nest'] if (cfg['tie'] == 'random' or cfg['rao']) else None, randomize_action_order=cfg['rao'],
                                           tie_breaking_strategy=cfg['tie']).plan_on(nmdp)
                except (Violation, Inconclusive):
                    raise
                except Exception as e:
                    raise Violation('exception', f"the search nested inside the heuristic raised {type(e).__name__}: {e}", dict(key=f"exception/nested-run/{type(e).__name__}"))
            return inner_hv(s)
    abox = dict(n=0, k=None)
    plain_hv = hv

    def hv(s):
        abox['n'] += 1
        if abox['k'] is not None and abox['n'] >= abox['k']:
            abox['k'] = None
            raise InjectedAbort()
        return plain_hv(s)
    d = dijkstra(gv)
    du = dijkstra(gv, unit=True)
    best = min([d[g] for g in gv.goals if g in d], default=None)
    bestu = min([du[g] for g in gv.goals if g in du], default=None)
    if best is None:
        ctx.probe('no_plan')
    if gv.src in gv.goals:
        ctx.probe('start_is_goal')
    if sum(1 for g in gv.goals if g in d) > 1:
        ctx.probe('two_goals_reachable')
    if any(t == s for (s, a), (t, w) in E.items()):
        ctx.probe('self_loop_present')
    if cfg['tie'] == 'random':
        ctx.probe('random_tie_break')
    if cfg['rao']:
        ctx.probe('shuffled_actions')
    if gv.n >= 10:
        ctx.probe('big_graph')
    if gv.spec.get('intcost'):
        ctx.probe('integer_rewards')
    if gv.spec.get('listact') and cfg['rep'] == 'dsp':
        ctx.probe('unhashable_actions')
    if gv.spec.get('bare_goals') and gv.goals:
        ctx.probe('goals_without_actions')
    if gv.spec.get('giant') and best is not None and best >= 2 ** 53:
        ctx.probe('costs_beyond_2_53')
    seed = cfg['seed'] if (cfg['tie'] == 'random' or cfg['rao']) else None
    proxy = RandomProxy(sched)
    for alg in ('astar', 'bfs'):
        with patched_random([se], proxy):
            try:
                if alg == 'astar':
                    planner = se.AStarSearch(heuristic_value=hv, seed=seed, randomize_action_order=cfg['rao'],
                                             tie_breaking_strategy=cfg['tie'])
                    if cfg.get('abort') is not None:
                        # fault F6: a first search with the SAME planner and model objects dies with an exception thrown from
                        # the user's heuristic at its k-th call
                        ctx.probe('rerun_after_abort')
                        abox['k'] = abox['n'] + 1 + cfg['abort'] % 15
                        try:
                            planner.plan_on(m)
                        except InjectedAbort:
                            ctx.probe('aborts_delivered')
                            sched.fire('F6_abort_and_rerun')
                        abox['k'] = None
                    r = planner.plan_on(m)
                else:
                    r = se.BreadthFirstSearch(seed=seed, randomize_action_order=cfg['rao']).plan_on(m)
            except (Violation, Inconclusive):
                raise
            except Exception as e:
                raise Violation('exception', f"{alg} raised {type(e).__name__}: {e}",
                                dict(key=f"exception/{alg}/{type(e).__name__}/rep={cfg['rep']}" if cfg['rep'] == 'dict' and isinstance(e, TypeError)
                                     else f"exception/{alg}/{type(e).__name__}/heur={cfg['heur']}" if hk == 'exact_inf' and isinstance(e, AssertionError)
                                     else f"exception/{alg}/{type(e).__name__}"))
        ctx.check((best is None) == (r is None), 'no-plan-iff-unreachable',
                  lambda: f"{alg}: result is {'None' if r is None else 'a plan'} but an absorbing state is {'not ' if best is None else ''}reachable")
        if r is None:
            continue
        try:
            p = [sid[x] for x in r.path]
        except (KeyError, TypeError, AttributeError) as e:
            raise Violation('result-shape', f"{alg}: path malformed: {type(e).__name__}: {e}")
        ctx.check(len(p) >= 1 and p[0] == gv.src, 'path-valid', lambda: f"{alg}: path {p} does not start at {gv.src}")
        ctx.check(p[-1] in gv.goals, 'path-valid', lambda: f"{alg}: path {p} does not end in an absorbing state")
        ctx.check(all(x not in gv.goals for x in p[:-1]), 'path-valid', lambda: f"{alg}: path {p} passes through an absorbing state")
        cost = 0
        for x, y in zip(p, p[1:]):
            try:
                ad = {(a[1] if isinstance(a, list) else aid[a]): pr for a, pr in r.policy.action_dist(sk[x]).items() if pr > 0}
            except Exception as e:
                raise Violation('path-valid', f"{alg}: policy undefined at path state {x}: {type(e).__name__}: {e}")
            ctx.check(len(ad) == 1, 'path-valid', lambda: f"{alg}: policy at {x} is not a single action: {ad}")
            a = next(iter(ad))
            ctx.check((x, a) in E and E[x, a][0] == y, 'path-valid',
                      lambda: f"{alg}: path step {x}->{y} is not the transition of the policy's action {a} ({E.get((x, a))})")
            cost += E[x, a][1]
            if E[x, a][1] == 0:
                ctx.probe('zero_cost_edge_on_path')
        if len(p) > 1000:
            ctx.probe('path_longer_than_1000_steps')
        if alg == 'astar':
            ctx.check(cost == best, 'min-cost', lambda: f"astar: path {p} costs {cost}, optimum is {best}")
            ctx.check(r.path_value == cost, 'path-value', lambda: f"astar: reported path_value {r.path_value!r} != path cost {cost}")
        else:
            ctx.check(len(p) - 1 == bestu, 'min-steps', lambda: f"bfs: path {p} has {len(p) - 1} steps, minimum is {bestu}")
    return ctx.result()


def sample_repr(case, out):
    c = case['cfg']
    return dict(index=case['index'], states=case['spec']['n'], goals=case['spec']['goals'], keys=case['spec']['kind'],
                edges=case['spec']['edges'][:8], rep=c['rep'], heuristic=c['heur'], tie=c['tie'], shuffle=c['rao'],
                mode=case['sched']['mode'], decisions=(out.get('stats') or {}).get('decisions'),
                first_decisions=(out.get('script') or [])[:8], status=out.get('status'))


def shrink(case):
    yield from shr.config_candidates(case, {('cfg', 'rao'): [False], ('cfg', 'tie'): ['lifo', 'fifo'], ('cfg', 'heur'): ['zero', 'exact'],
                                            ('cfg', 'rep'): ['next_state']})
    spec = case['spec']
    # drop edges, then unreferenced tail states
    for i in range(len(spec['edges'])):
        s = spec['edges'][i][0]
        if sum(1 for e in spec['edges'] if e[0] == s) > 1:
            c = copy.deepcopy(case)
            del c['spec']['edges'][i]
            yield c
    for i, e in enumerate(spec['edges']):
        if e[3] > 1:
            c = copy.deepcopy(case)
            c['spec']['edges'][i][3] = 1
            yield c
    n = spec['n']
    last = n - 1
    if n > 1 and spec['src'] != last and all(e[2] != last for e in spec['edges'] if e[0] != last):
        c = copy.deepcopy(case)
        c['spec']['n'] = n - 1
        c['spec']['edges'] = [e for e in spec['edges'] if e[0] != last and e[2] != last]
        c['spec']['goals'] = [g for g in spec['goals'] if g != last]
        yield c
    if spec['kind'] != 'int':
        c = copy.deepcopy(case)
        c['spec']['kind'] = 'int'
        yield c

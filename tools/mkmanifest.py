#!/usr/bin/env python3
"""Regenerates MANIFEST.json's `checks` from the table below (keeps everything else)."""
import json, os
HERE = os.path.dirname(os.path.dirname(os.path.abspath(__file__)))
CHECKS = {'C03': ('5/C03', 'LAO* under scheduler-chosen initial-state, action and successor orders (incl. sorted/reversed/rotated orders no small seed set yields); per-iteration upper-bound invariant via the listener; result compared with an independent exact solver and exact policy evaluation; faults: planner object first used on a sibling problem (F5) or aborted mid-run from a model call-back (F6), iteration cap replayed at exactly the expansions needed (F7), model hands out aliased action lists', 'reference policy iteration + linear solves on harness-owned tables; workloads <= 7 states (rewards up to |60|, discounts 0.5..0.999 and 1); tolerance 1e-6 relative'),
 'C04': ('5/C04', 'LRTDP trial histories chosen by the scheduler (rare branches, then cooperative so every trial ends); upper-bound, label-stability and sampled-successor invariants at every listener event; eps*N bound against an exact solver; Bonet-Geffner trial bound as bounded liveness; faults: F5/F6 on the planner object, trial cap replayed at exactly the trials needed (F7), model updated in place between runs (F9), shared/cached action lists', 'eps*N clauses applied with every admissible heuristic (constant, zero, exact, exact+slack, per-state noisy slack); value monotonicity and the trial bound only with monotone ones; proper MDPs <= 7 states'),
 'C05': ('5/C05', 'A*/BFS with scheduler-chosen tie-break floats and action permutations (monotone, reversed, random), five model representations, graphs of 1-8 and 15-60 states; path validity, optimal cost = Dijkstra, min steps = BFS, None iff unreachable', 'Dijkstra/BFS reference on the spec graph; integer costs compared exactly'),
 'C09': ('5/C09', "controller execution with the scheduler choosing every action, successor and observation (biased to low-probability actions); start state and per-step conditional action probabilities vs a reference node filter; exact evaluation vs reference chain; BPI/gradient-ascent results and BPI's per-iteration values through the module-level evaluator seam", "learners are driven by seed only (numpy/torch generators not behind a seam); POMDPs 2-4 states; row-stochasticity up to the LP solver's feasibility tolerance; one open known finding (evaluator keeps accumulating after absorption)"),
 'C10': ('5/C10', "all four TD learners with the scheduler deciding every initial state, exploration coin, action choice, tie-break and successor (also on the unseeded path, whose 'global' stream the scheduler owns); per-step fold of the published update rule checked inside the listener, final table, interval and greedy-policy clauses afterwards; faults: listener re-entrancy (F8), learner first trained on a sibling problem (F5) or aborted mid-run (F6), model updated in place (F9), aliased action lists", 'proper MDPs <= 6 non-absorbing states; tolerance 1e-9 relative on exact folds'),
 'C13': ('5/C13', 'every seeded component executed in a reference environment and in perturbed ones: reseeded/drawn-from global random, numpy and torch generators before and during the run (at model call-backs, listener call-backs and private-stream draws), reused learner/model objects, aborted-then-rerun, equal-keyed twin problems, the unpatched library; global generator state accounted between every two seam events; equally seeded generators on the same object; fresh interpreters under other PYTHONHASHSEED values and with a different process history; canonical result digests must agree', 'hash randomisation is controlled only through its seed; numpy/torch global state compared by full state snapshot; cross-process digests round floats to 9 significant digits'),
 'C14': ('5/C14', 'MDP and POMDP roll-outs with the scheduler as the generator argument, step caps placed around the absorption time the scheduler is about to realise (F7), long strongly-discounted roll-outs, policies updated in place between roll-outs (F9); trajectory validity against the spec, agent-state chaining, stop rule, returns recursion, Monte-Carlo book-keeping recomputed from the recorded roll-outs', 'spec tables as the reference model; both visit-counting conventions for the closing state accepted'),
 'C15': ('5/C15', 'option executions and semi-MDP simulations with the scheduler deciding every draw and max_steps placed around the realised termination time (F7); recorded simulations -> empirical (end state, steps, discounted reward) distribution; cross-call consistency with the genuine streams (seed given and seed=None); static augment/sub_task clauses ride along on every workload', "boundary max_steps-1/max_steps accepted either way (statement does not choose); ValueIteration used only as the option's planner, oracle is the harness solver"),
 'C17': ('5/C17', "R-MAX with the scheduler choosing initial states, tie actions and successors (rare-biased so first-m samples are unrepresentative and pairs sit at m-1 samples); empirical model rebuilt from the listener's history and checked at every end of episode and on the result; faults: F5/F6 on the learner object, model updated in place (F9), explicit (permuted, with unreachable states) state lists, discounts up to 0.999", 'proper MDPs with uniform action sets <= 6 states, discount < 1')}
m = json.load(open(os.path.join(HERE, 'MANIFEST.json')))
have = [c for c in sorted(CHECKS) if os.path.exists(os.path.join(HERE, 'checks', c.lower() + '.py')) and c in (os.environ.get('ONLY', ' '.join(CHECKS)).split())]
m['checks'] = []
for c in have:
    ref, text, note = CHECKS[c]
    m['checks'].append(dict(
        property_id=c,
        quick_cmd=f"./check {c} --tier quick",
        thorough_cmd=f"./check {c} --tier thorough",
        evidence_file=f"/verif/evidence/{c}.json",
        replay_cmd_template=f"./check {c} --replay {{path}}",
        engine="sim",
        level_claimed=dict(category="exploration", text="Seeded search over schedules and fault sequences: " + text + ". A clean batch is evidence, not proof.", design_ref="DESIGN.md " + ref),
        level_note=note,
        technique="deterministic simulation with fault injection (seeded scheduler owning msdm's private random streams; reference-model oracle; replayable minimised decision scripts)",
    ))
m['engines'] = [dict(name="sim", path="/verif/sim", serves_properties=have,
                     kind_free_text="in-process deterministic simulator: SimRandom/Scheduler own every private random stream of msdm through module-attribute, rng= and listener seams; harness-owned table models; numpy reference solvers; own delta-debugging minimiser and replay files")]
claimed = set(have)
m['not_applicable'] = [e for e in m.get('not_applicable', []) if e['property_id'] not in claimed]
json.dump(m, open(os.path.join(HERE, 'MANIFEST.json'), 'w'), indent=1)
print("checks:", have)

#!/bin/bash
# tools/eval_seeded.sh <seeded-dir> <ID> [extra check args]
# Confirms a seeded change (tests unchanged, demo fails with / passes without) and runs the quick check against it.
set -u
sd="$(realpath "$1")"; id="$2"; shift 2
d=$(mktemp -d /tmp/msdm_seed.XXXXXX)
mkdir -p "$d/repo"; cp -r /repo/msdm "$d/repo/msdm"; cp /repo/setup.py /repo/setup.cfg /repo/pyproject.toml "$d/repo/" 2>/dev/null
echo "== demo on unchanged tree (want exit 0)"
(cd "$d/repo" && PYTHONPATH="$d/repo" timeout 600 /venv/bin/python "$sd/demo.py" >/dev/null 2>&1; echo "demo_clean_exit=$?")
(cd "$d/repo" && patch -p1 -s < "$sd/patch.diff") || { echo "PATCH FAILED"; rm -rf "$d"; exit 3; }
echo "== tests with change (want 11 failed, 88 passed)"
(cd "$d/repo" && PYTHONPATH="$d/repo" timeout 900 /venv/bin/python -m pytest -q -p no:cacheprovider --timeout=900 --continue-on-collection-errors 2>&1 | tail -1)
echo "== demo with change (want non-zero)"
(cd "$d/repo" && PYTHONPATH="$d/repo" timeout 600 /venv/bin/python "$sd/demo.py" >/dev/null 2>&1; echo "demo_mutant_exit=$?")
echo "== check $id $* against the change (want exit 1)"
MSDM_VERIF_REPO="$d/repo" "$(dirname "$0")/../check" "$id" --no-evidence "$@" > "$d/out.txt" 2>&1
rc=$?
grep -E "^(VIOLATION|  clause|C[0-9]+ tier|BROKEN|KNOWN)" "$d/out.txt" | cut -c1-400 | head -14
grep -A1 "^  clause" "$d/out.txt" | grep -v "^  clause" | grep -v "^--" | cut -c1-300 | head -4
rm -rf "$d"
echo "check_exit=$rc"

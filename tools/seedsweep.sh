#!/bin/bash
# tools/seedsweep.sh <seed>... : every quick check under each given VERIF_SEED (no evidence written); prints only non-clean lines + a summary
cd "$(dirname "$0")/.."
bad=0
for seed in "$@"; do
  for c in C03 C04 C05 C09 C10 C13 C14 C15 C17; do
    out=$(VERIF_SEED=$seed ./check $c --tier quick --no-evidence 2>&1); rc=$?
    if [ $rc -ne 0 ]; then bad=$((bad+1)); echo "seed=$seed $c exit=$rc"; echo "$out" | grep -E "VIOLATION|clause=|BROKEN|^  [a-zA-Z]" | grep -v KNOWN | cut -c1-300 | head -8; fi
  done
  echo "seed $seed done"
done
echo "SWEEP bad=$bad"

#!/bin/bash
# tools/soak.sh [seed] : runs every thorough check once (sequentially, 16 workers each); exit non-zero if any alarms.
export VERIF_SEED="${1:-1}"
cd "$(dirname "$0")/.."
rc=0
for c in C03 C04 C05 C09 C10 C13 C14 C15 C17; do
  echo "=== $c thorough seed=$VERIF_SEED"; ./check $c --tier thorough --no-evidence 2>&1 | cut -c1-600 | tail -12; r=${PIPESTATUS[0]}; [ $r -ne 0 ] && rc=$r
done
exit $rc

#!/bin/bash
# tools/collect_round.sh <round> [IDs...] : copy each sub-agent's deliverables from /tmp/wt<round>_<ID>/_seeded into seeded/<ID>_r<round>/
# and evaluate them (tools/eval_seeded.sh). Prints one block per change.
r="$1"; shift
ids="${@:-C03 C04 C05 C09 C10 C13 C14 C15 C17}"
cd "$(dirname "$0")/.."
for c in $ids; do
  src=/tmp/wt${r}_$c/_seeded; d=seeded/${c}_r$r
  [ -f $src/patch.diff ] || { echo "#### $c: no deliverables yet"; continue; }
  mkdir -p $d; cp $src/patch.diff $src/demo.py $src/notes.md $d/ 2>/dev/null
  echo "#### $c"
  tools/eval_seeded.sh $d $c 2>&1 | grep -v "^==" | grep -v KNOWN | cut -c1-260 | tail -6
done

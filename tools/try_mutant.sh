#!/bin/bash
# tools/try_mutant.sh <patch-or-sed-script.sh> <ID> [check args...]
# Applies a mutation to a scratch copy of /repo's working tree (msdm/ only), runs the check against it, removes the copy.
set -u
mut="$1"; id="$2"; shift 2
d=$(mktemp -d /tmp/msdm_mut.XXXXXX)
mkdir -p "$d/repo"; cp -r /repo/msdm "$d/repo/msdm"; cp /repo/setup.py /repo/setup.cfg /repo/pyproject.toml "$d/repo/" 2>/dev/null
case "$mut" in
  *.sh) (cd "$d/repo" && bash "$(realpath "$mut")") ;;
  *) (cd "$d/repo" && patch -p1 -s < "$(realpath "$mut")") || { echo "PATCH FAILED"; rm -rf "$d"; exit 3; } ;;
esac
if [ "${RUN_TESTS:-0}" = 1 ]; then (cd "$d/repo" && /venv/bin/python -m pytest -q -p no:cacheprovider --timeout=900 --continue-on-collection-errors 2>&1 | tail -1); fi
MSDM_VERIF_REPO="$d/repo" "$(dirname "$0")/../check" "$id" --no-evidence "$@" | grep -E "^(VIOLATION|  clause|  [a-zA-Z#]|C[0-9]+ tier|BROKEN|KNOWN)" | head -${LINES_MAX:-12}
rc=${PIPESTATUS[0]}
rm -rf "$d"
echo "exit=$rc"
